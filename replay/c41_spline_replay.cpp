// Native replay for the spline part of C41 (checks/part_c41_spline.py).
// The CURRENT tree's gcvspl.cpp and GCVSPLUtil.cpp are compiled into this driver (they take precedence over libSimTKmath).
//   c41_spline_replay <seed> search : search_ called directly on strongly non-uniform knot sets, random t, random initial guesses,
//                                     compared with a linear scan (documented result: 0 / n / L with X(L) <= t < X(L+1))
//   c41_spline_replay <seed> splder : SplineFitter / Spline_ (public API), degrees 1,3,5,7 on non-uniform knots: derivative order k
//                                     against a central difference of order k-1 (incl. the first and last intervals), interpolation of
//                                     the control points, degree 1 == linear interpolation
// Prints MISMATCH lines and a final "REPRODUCED: ..." / "NOT-REPRODUCED".
#include <cstdio>
#include <cstdlib>
#include <cmath>
#include <cstring>
#include <vector>
#include <random>
#include <algorithm>
#include "SimTKcommon.h"
#include "simmath/internal/common.h"
#include "simmath/internal/GCVSPLUtil.h"
#include "simmath/internal/Spline.h"
#include "simmath/internal/SplineFitter.h"

using namespace SimTK;

int search_(int *n, const SimTK_Real *x, SimTK_Real *t, int *l);   // gcvspl.cpp (C++ linkage, not static)

static int mism = 0;
static std::mt19937_64 rng;
static double urand(double a, double b) { return std::uniform_real_distribution<double>(a, b)(rng); }
static int irand(int a, int b) { return std::uniform_int_distribution<int>(a, b)(rng); }

static int linearScan(const std::vector<double>& x, double t) {
    int n = (int)x.size();
    if (t < x[0]) return 0;
    if (t >= x[n - 1]) return n;
    for (int L = 1; L < n; ++L) if (x[L - 1] <= t && t < x[L]) return L;
    return -1;
}

static std::vector<double> knots(int n, int style) {
    std::vector<double> x(n);
    double v = urand(-3, 3);
    for (int i = 0; i < n; ++i) {
        x[i] = v;
        double gap;
        if (style == 0) gap = 1;
        else if (style == 1) gap = std::exp(urand(-4, 4));               // strongly non-uniform
        else gap = (i == n - 2) ? urand(10, 30) : urand(0.5, 1.5);       // one long last interval
        v += gap;
    }
    return x;
}

static void testSearch(int rounds) {
    std::vector<std::vector<double> > sets;
    sets.push_back({0, 1, 2, 3, 4, 5, 6, 20});
    sets.push_back({0, 14, 15, 16, 17, 18, 19, 20});
    sets.push_back({1.5});
    sets.push_back({-1, 2});
    for (int r = 0; r < rounds; ++r) sets.push_back(knots(irand(1, 40), irand(0, 2)));
    long calls = 0;
    for (size_t s = 0; s < sets.size(); ++s) {
        const std::vector<double>& x = sets[s];
        int n = (int)x.size();
        for (int rep = 0; rep < 400; ++rep) {
            double t;
            int c = irand(0, 9);
            if (c == 0) t = x[irand(0, n - 1)];                               // exactly a knot
            else if (c == 1) t = x[0] - urand(0, 2);
            else if (c == 2) t = x[n - 1] + urand(0, 2);
            else if (c == 3 && n >= 2) t = urand(x[n - 2], x[n - 1]);         // last interval
            else if (c == 4 && n >= 2) t = std::nextafter(x[irand(1, n - 1)], -1e300);
            else t = urand(x[0], x[n - 1]);
            int guess = irand(-3, n + 3);
            if (irand(0, 3) == 0) guess = irand(0, 2);                        // guesses far to the left: long upward bisections
            int l = guess, nn = n; double tt = t;
            search_(&nn, &x[0], &tt, &l);
            ++calls;
            int want = linearScan(x, t);
            if (l != want || nn != n || tt != t) {
                if (++mism <= 12) {
                    std::printf("MISMATCH search_: n=%d t=%.17g initial guess l=%d -> l=%d, linear scan gives %d; knots:", n, t, guess, l, want);
                    for (int i = 0; i < std::min(n, 12); ++i) std::printf(" %.6g", x[i]);
                    std::printf("%s\n", n > 12 ? " ..." : "");
                }
            }
        }
    }
    std::printf("search_: %ld calls on %d knot sets, %d mismatches so far\n", calls, (int)sets.size(), mism);
}

static double deriv(const Spline_<Real>& sp, int k, double t) {
    Vector a(1); a[0] = t;
    if (k == 0) return sp.calcValue(a);
    Array_<int> comps(k, 0);
    return sp.calcDerivative(comps, a);
}

static void testSplder(int rounds) {
    const int degrees[4] = {1, 3, 5, 7};
    long checks = 0;
    for (int r = 0; r < rounds; ++r) {
        for (int di = 0; di < 4; ++di) {
            int degree = degrees[di];
            int n = irand(degree + 3, degree + 12);
            std::vector<double> xs = knots(n, 1 + (r % 2));
            // moderate the non-uniformity (ratios up to ~50) so that the interpolation problem stays well conditioned
            if (r % 2 == 1) { }
            else { double v = 0; for (int i = 0; i < n; ++i) { xs[i] = v; v += std::exp(urand(-2, 2)); } }
            Vector x(n), y(n);
            for (int i = 0; i < n; ++i) { x[i] = xs[i]; y[i] = urand(-1, 1); }
            Spline_<Real> sp;
            try {
                sp = SplineFitter<Real>::fitForSmoothingParameter(degree, x, y, 0).getSpline();
            } catch (const std::exception& e) {
                std::printf("exception while fitting (degree %d, n %d): %s\n", degree, n, e.what());
                continue;
            }
            // control points reproduced
            for (int i = 0; i < n; ++i) {
                double v = deriv(sp, 0, xs[i]);
                ++checks;
                if (!(std::fabs(v - y[i]) <= 1e-6 * (1 + std::fabs(y[i])))) {
                    if (++mism <= 12) std::printf("MISMATCH interpolation: degree %d n %d: spline(x[%d]=%.10g) = %.12g, control point %.12g\n", degree, n, i, xs[i], v, (double)y[i]);
                }
            }
            for (int rep = 0; rep < 60; ++rep) {
                // interval: first, last, last but one, or random
                int c = irand(0, 5), iv;
                if (c == 0) iv = n - 2; else if (c == 1) iv = n - 3; else if (c == 2) iv = 0; else iv = irand(0, n - 2);
                double a = xs[iv], b = xs[iv + 1], w = b - a;
                double h = 1e-4 * w;
                double t = urand(a + 4 * h, b - 4 * h);
                if (degree == 1) {
                    double lin = y[iv] + (y[iv + 1] - y[iv]) * (t - a) / w;
                    double v = deriv(sp, 0, t);
                    ++checks;
                    if (!(std::fabs(v - lin) <= 1e-9 * (1 + std::fabs(lin)))) {
                        if (++mism <= 12) std::printf("MISMATCH degree-1 spline is not the linear interpolant: t=%.12g in [%.6g,%.6g] (interval %d of %d): %.12g vs %.12g\n", t, a, b, iv, n - 1, v, lin);
                    }
                }
                for (int k = 1; k <= degree; ++k) {
                    double d = deriv(sp, k, t);
                    double fp = deriv(sp, k - 1, t + h), fm = deriv(sp, k - 1, t - h);
                    double fd = (fp - fm) / (2 * h);
                    double d2 = (k + 1 <= degree) ? deriv(sp, k + 1, t) : 0;      // only to scale the tolerance
                    double scale = std::fabs(d) + std::fabs(fd) + (std::fabs(fp) + std::fabs(fm)) * 1e-10 / h + std::fabs(d2) * h + 1e-9;
                    ++checks;
                    if (!(std::fabs(d - fd) <= 2e-3 * scale)) {
                        if (++mism <= 12)
                            std::printf("MISMATCH derivative: degree %d n %d, t=%.12g in interval %d of %d: calcDerivative order %d = %.10g, central difference of order %d = %.10g\n",
                                        degree, n, t, iv, n - 1, k, d, k - 1, fd);
                    }
                }
                // order > degree: zero
                double z = deriv(sp, degree + 1, t);
                ++checks;
                if (z != 0) { if (++mism <= 12) std::printf("MISMATCH derivative of order degree+1 = %.10g, expected 0\n", z); }
            }
        }
    }
    std::printf("spline: %ld comparisons, %d mismatches so far\n", checks, mism);
}

int main(int argc, char** argv) {
    unsigned long seed = argc > 1 ? std::strtoul(argv[1], 0, 10) : 0;
    const char* mode = argc > 2 ? argv[2] : "all";
    rng.seed(seed * 7919 + 17);
    bool all = !std::strcmp(mode, "all");
    try {
        if (all || !std::strcmp(mode, "search")) testSearch(60);
        if (all || !std::strcmp(mode, "splder")) testSplder(12);
    } catch (const std::exception& e) {
        std::printf("exception: %s\n", e.what());
    }
    if (mism) std::printf("REPRODUCED: %d mismatches (mode %s)\n", mism, mode);
    else std::printf("NOT-REPRODUCED\n");
    return 0;
}
