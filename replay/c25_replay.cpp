// Native replay for C25 kernel: real SmallMatrixMixed.h templates on seeded random matrices.
#include "SimTKcommon.h"
#include <cstdio>
#include <cstdlib>
#include <cmath>
using namespace SimTK;
static int bad = 0;
static void rep(const char* what, double resid, double tol=1e-9) { if (!(resid <= tol)) { printf("%-60s residual %.3e MISMATCH\n", what, resid); bad++; } }
template <class M> static double nrm(const M& m){ double s=0; for(int i=0;i<m.nrow();i++)for(int j=0;j<m.ncol();j++) s+=m(i,j)*m(i,j); return std::sqrt(s); }
int main(int argc, char** argv) {
  unsigned seed = argc>1 ? (unsigned)atoi(argv[1]) : 0; srand(seed+99);
  auto rnd=[&](){ return 2.0*rand()/RAND_MAX-1.0; };
  for (int it=0; it<20; ++it) {
    Mat22 a; Mat33 b, b2; Mat44 c; for(int i=0;i<2;i++)for(int j=0;j<2;j++) a(i,j)=rnd(); for(int i=0;i<3;i++)for(int j=0;j<3;j++){ b(i,j)=rnd(); b2(i,j)=rnd(); } for(int i=0;i<4;i++)for(int j=0;j<4;j++) c(i,j)=rnd();
    SymMat22 s2(rnd(), rnd(),rnd()); SymMat33 s3(rnd(), rnd(),rnd(), rnd(),rnd(),rnd());
    Vec3 u(rnd(),rnd(),rnd()), v(rnd(),rnd(),rnd()), w(rnd(),rnd(),rnd());
    rep("det22", std::fabs(det(a)-(a(0,0)*a(1,1)-a(0,1)*a(1,0))));
    double d3 = b(0,0)*(b(1,1)*b(2,2)-b(1,2)*b(2,1)) - b(0,1)*(b(1,0)*b(2,2)-b(1,2)*b(2,0)) + b(0,2)*(b(1,0)*b(2,1)-b(1,1)*b(2,0));
    rep("det33", std::fabs(det(b)-d3)); rep("det(AB)=det A det B", std::fabs(det(Mat33(b*b2))-det(b)*det(b2)), 1e-9);
    { double d=0; for (int j=0;j<4;j++){ Mat33 mnr; for(int r=1;r<4;r++){int cc=0; for(int q=0;q<4;q++){ if(q==j)continue; mnr(r-1,cc++)=c(r,q);} } d += ((j%2)?-1:1)*c(0,j)*det(mnr);} rep("det44 (generic recursion)", std::fabs(det(c)-d)); }
    rep("det sym33", std::fabs(det(s3)-det(Mat33(s3)))); rep("det sym22", std::fabs(det(s2)-det(Mat22(s2))));
    if (std::fabs(det(a))>1e-3) rep("inverse22", nrm(Mat22(Mat22(inverse(a))*a-Mat22(1))), 1e-7);
    if (std::fabs(det(b))>1e-3) { rep("inverse33 left", nrm(Mat33(Mat33(inverse(b))*b-Mat33(1))), 1e-7); rep("inverse33 right", nrm(Mat33(b*Mat33(inverse(b))-Mat33(1))), 1e-7); }
    if (std::fabs(det(s3))>1e-3) rep("inverse sym33", nrm(Mat33(Mat33(inverse(s3))*Mat33(s3)-Mat33(1))), 1e-7);
    if (std::fabs(det(s2))>1e-3) rep("inverse sym22", nrm(Mat22(Mat22(inverse(s2))*Mat22(s2)-Mat22(1))), 1e-7);
    Vec3 cr = cross(u,v); rep("cross def", (cr-Vec3(u[1]*v[2]-u[2]*v[1],u[2]*v[0]-u[0]*v[2],u[0]*v[1]-u[1]*v[0])).norm());
    rep("cross antisym", (cr+cross(v,u)).norm()); rep("cross orth", std::fabs(dot(cr,u))+std::fabs(dot(cr,v)), 1e-12);
    rep("cross row/vec variants", (~cross(~u,v)-cr).norm() + (~cross(u,~v)-cr).norm() + (~cross(~u,~v)-cr).norm());
    rep("crossMat", (crossMat(u)*v-cr).norm()); rep("crossMatSq", nrm(Mat33(Mat33(crossMatSq(u))+crossMat(u)*crossMat(u))));
    rep("cross(v,Mat)", nrm(Mat33(cross(u,b)-crossMat(u)*b))); rep("cross(Mat,v)", nrm(Mat33(cross(b,u)-b*crossMat(u))));
    rep("cross(v,SymMat)", nrm(Mat33(cross(u,s3)-crossMat(u)*Mat33(s3)))); rep("cross(SymMat,v)", nrm(Mat33(cross(s3,u)-Mat33(s3)*crossMat(u))));
    Vec2 p(rnd(),rnd()), q(rnd(),rnd()); rep("cross 2d", std::fabs(cross(p,q)-(p[0]*q[1]-p[1]*q[0]))); rep("crossMat 2d", std::fabs(crossMat(p)*q-(p[0]*q[1]-p[1]*q[0])));
  }
  printf(bad ? "REPRODUCED: %d identities violated natively\n" : "NOT-REPRODUCED (%d)\n", bad);
  return bad?1:0;
}
