// C18 native replay driver: runs operation scripts against the REAL SimTK::State (headers of the
// current tree; State.cpp of the current tree is compiled into this executable; the rest comes from
// the private library build) and, after EVERY operation, evaluates the documented model's
// postconditions natively:
//   * stage lowering: system and every subsystem stage == min(old, g-1) after a change that invalidates g
//   * exactly the versions of the invalidated stages are bumped (system and every subsystem)
//   * q/u/z value versions change exactly when the values may have changed
//   * isCacheValueRealized() == documented rule, and the HISTORY property: reads valid ==> computed-by
//     stage realized, or marked valid after the last change to its depends-on stage (ghost `fresh`
//     maintained by the event rules only, never from version numbers)
//   * copy: stage == min(stage, Instance); copied stages keep versions; later stages get greater
//     versions; a copied entry reads valid only if it was fresh in the source
// usage: c18_replay script "<tokens>"      run one script (tokens below), prints REPRODUCED:/OK
//        c18_replay search <seed> <nseq> <len>   random scripts; stops at the first mismatch
//        c18_replay copywitness            the witness of finding F5 (stale cache entry valid in a copy)
// tokens: S<n> subsystems | aq au az allocate q,u,z (subsystem 0) | c<s><d><c> cache entry in subsystem s,
//   depends-on d, computed-by c (A=Infinity) | v<s><g> discrete variable invalidating g | R<g> realize to g |
//   m<s><k> mark entry k of subsystem s | x<s><k> mark not realized | Ut Uy Uq Uu Uz Uw UW Ue UE global upd* |
//   Pq<s> Pu<s> Pz<s> Pw<s> PW<s> Pe<s> PE<s> per-subsystem upd* | D<s><k> updDiscreteVariable |
//   I<g> invalidateAll | J<g> invalidateAllCacheAtOrAbove | C copy-construct, continue on the copy |
//   = copy-assign into a realized scratch state, continue on it
#include <iostream>
#include <sstream>
#include <vector>
#include <string>
#include <random>
#include <cstdlib>
#include <cmath>
#define private public      // observation only: stage versions are not exposed by the public API
#define protected public
#include "SimTKcommon.h"
#undef private
#undef protected
using namespace SimTK;

static const int NST = Stage::NValid;
struct MCE { int dep, comp, alloc; long long stamp; bool flag, fresh; long long vv = 1; };
struct MDV { int inv, alloc; };
struct MSub { int stage = 0; long long ver[16]; std::vector<MCE> ce; std::vector<MDV> dv; MSub() { for (int i = 0; i < 16; i++) ver[i] = 1; } };
struct Model { int sys = 0; long long sysver[16]; long long qv = 1, uv = 1, zv = 1; std::vector<MSub> sub; int nq = 0, nu = 0, nz = 0;
               Model() { for (int i = 0; i < 16; i++) sysver[i] = 1; } };

static std::string fail;
static bool lenient_copy_versions = false;   // copywitness: skip the version rule so that the OBSERVABLE stale read shows
static std::ostringstream trace_;
#define CHECK(cond, what) do { if (!(cond) && fail.empty()) { std::ostringstream chk_os_; chk_os_ << what; fail = chk_os_.str(); } } while (0)

static int dig(char c) { return c == 'A' ? 10 : c - '0'; }

static void m_invalidate(Model& m, int g) {
    if (m.sys >= g) {
        for (int i = g; i <= m.sys; i++) m.sysver[i]++;
        if (m.sys >= Stage::Model && Stage::Model >= g) { m.qv++; m.uv++; m.zv++; }
        m.sys = g - 1;
    }
    for (auto& s : m.sub) {
        for (auto& e : s.ce) if (g <= e.dep) e.fresh = false;          // history event: depends-on stage changed
        if (s.stage < g) continue;
        if (g == Stage::Topology) { s = MSub(); continue; }             // just-constructed condition
        while (!s.ce.empty() && s.ce.back().alloc > g - 1) s.ce.pop_back();
        while (!s.dv.empty() && s.dv.back().alloc > g - 1) s.dv.pop_back();
        for (int i = g; i <= s.stage; i++) s.ver[i]++;
        s.stage = g - 1;
    }
}

static void compare(const State& st, const Model& m, const char* after) {
    CHECK((int)st.getSystemStage() == m.sys, after << ": system stage " << (int)st.getSystemStage() << " != model " << m.sys << " [stage' == min(stage, g-1)]");
    const StateImpl& im = st.getImpl();
    for (int i = 1; i < NST; i++)
        CHECK(im.systemStageVersions[i] == m.sysver[i], after << ": system version of stage " << i << " is " << im.systemStageVersions[i] << " model " << m.sysver[i] << " [exactly the invalidated stage versions are bumped]");
    CHECK(st.getQValueVersion() == m.qv && st.getUValueVersion() == m.uv && st.getZValueVersion() == m.zv,
          after << ": q/u/z value versions " << st.getQValueVersion() << "," << st.getUValueVersion() << "," << st.getZValueVersion() << " model " << m.qv << "," << m.uv << "," << m.zv);
    CHECK(st.getNumSubsystems() == (int)m.sub.size(), after << ": subsystem count");
    for (int s = 0; s < (int)m.sub.size() && fail.empty(); s++) {
        const MSub& ms = m.sub[s]; SubsystemIndex sx(s);
        CHECK((int)st.getSubsystemStage(sx) == ms.stage, after << ": subsystem " << s << " stage " << (int)st.getSubsystemStage(sx) << " != model " << ms.stage << " [every subsystem: stage' == min(stage, g-1)]");
        const StageVersion* v = im.getSubsystemStageVersions(s);
        for (int i = 0; i < NST; i++)
            CHECK(v[i] == ms.ver[i], after << ": subsystem " << s << " version of stage " << i << " is " << v[i] << " model " << ms.ver[i] << " [exactly the invalidated stage versions are bumped]");
        CHECK((int)im.getSubsystem(sx).cacheInfo.size() == (int)ms.ce.size(), after << ": subsystem " << s << " has " << im.getSubsystem(sx).cacheInfo.size() << " cache entries, model " << ms.ce.size());
        if (!fail.empty()) break;
        for (int k = 0; k < (int)ms.ce.size(); k++) {
            const MCE& e = ms.ce[k];
            bool real = st.isCacheValueRealized(sx, CacheEntryIndex(k));
            bool rule = ms.stage >= e.comp || (ms.stage >= e.dep && e.stamp == ms.ver[e.dep] && e.flag);
            CHECK(real == rule, after << ": cache entry (" << s << "," << k << ") dependsOn " << e.dep << " computedBy " << e.comp << " reads " << real << ", documented rule gives " << rule);
            CHECK(im.getSubsystem(sx).cacheInfo[k].getValueVersion() == e.vv, after << ": cache entry (" << s << "," << k << ") value version " << im.getSubsystem(sx).cacheInfo[k].getValueVersion() << " model " << e.vv << " [value versions change whenever the value may have changed]");
            CHECK(!real || ms.stage >= e.comp || e.fresh, after << ": HISTORY: cache entry (" << s << "," << k << ") dependsOn " << e.dep << " reads VALID at stage " << ms.stage
                  << " but was not marked valid after the last change to its depends-on stage (stale value visible)");
        }
    }
}

struct Run {
    State st; Model m;
    void realizeTo(int g) {
        for (int t = m.sys + 1; t <= g; t++) {
            for (int s = 0; s < (int)m.sub.size(); s++)
                if (m.sub[s].stage < t) { for (int u = m.sub[s].stage + 1; u <= t; u++) { st.advanceSubsystemToStage(SubsystemIndex(s), Stage(u)); m.sub[s].stage = u; } }
            st.advanceSystemToStage(Stage(t)); m.sys = t;
        }
    }
    // returns false if the token is not applicable in the current state (skipped)
    bool step(const std::string& t) {
        char c = t[0];
        if (c == 'S') { int n = dig(t[1]); st.setNumSubsystems(n); m.sub.assign(n, MSub()); return true; }
        if (m.sub.empty()) return false;
        if (c == 'a') {
            if (m.sub[0].stage >= Stage::Model) return false;
            if (t[1] == 'q') { st.allocateQ(SubsystemIndex(0), Vector(1, 1.0)); m.nq++; }
            else if (t[1] == 'u') { st.allocateU(SubsystemIndex(0), Vector(1, 2.0)); m.nu++; }
            else { st.allocateZ(SubsystemIndex(0), Vector(1, 3.0)); m.nz++; }
            return true;
        }
        if (c == 'c') {
            int s = dig(t[1]), d = dig(t[2]), cb = dig(t[3]);
            if (s >= (int)m.sub.size() || m.sub[s].stage >= Stage::Instance || d < 1 || d > 9 || cb < d) return false;
            st.allocateCacheEntry(SubsystemIndex(s), Stage(d), Stage(cb), new Value<Real>(0));
            { MCE e; e.dep = d; e.comp = cb; e.alloc = m.sub[s].stage + 1; e.stamp = 0; e.flag = true; e.fresh = false; m.sub[s].ce.push_back(e); }
            return true;
        }
        if (c == 'v') {
            int s = dig(t[1]), g = dig(t[2]);
            if (s >= (int)m.sub.size() || g < 1 || g > 9) return false;
            int maxok = (g <= Stage::Model) ? Stage::Empty : Stage::Topology;
            if (m.sub[s].stage > maxok || g <= m.sub[s].stage + 1) return false;   // DiscreteVarInfo::isReasonable: invalidated > allocation stage
            st.allocateDiscreteVariable(SubsystemIndex(s), Stage(g), new Value<Real>(0));
            m.sub[s].dv.push_back(MDV{g, m.sub[s].stage + 1});
            return true;
        }
        if (c == 'R') { int g = dig(t[1]); if (g > 9 || g <= m.sys) return false; realizeTo(g); return true; }
        if (c == 'm' || c == 'x') {
            int s = dig(t[1]), k = dig(t[2]);
            if (s >= (int)m.sub.size() || k >= (int)m.sub[s].ce.size()) return false;
            MCE& e = m.sub[s].ce[k];
            if (c == 'm') {
                if (m.sub[s].stage < e.dep) return false;        // documented precondition of markCacheValueRealized
                st.markCacheValueRealized(SubsystemIndex(s), CacheEntryIndex(k));
                e.stamp = m.sub[s].ver[e.dep]; e.flag = true; e.fresh = true;
            } else {
                st.markCacheValueNotRealized(SubsystemIndex(s), CacheEntryIndex(k));
                e.stamp = 0; e.flag = false; e.fresh = false; e.vv++;
            }
            return true;
        }
        if (c == 'U' || c == 'P') {
            char w = t[1]; int s = (c == 'P') ? dig(t[2]) : 0;
            if (s >= (int)m.sub.size()) return false;
            int need = (w == 't') ? Stage::Topology : (w == 'e' || w == 'E') ? Stage::Instance : Stage::Model;
            if (m.sys < need) return false;
            int g; bool bq = false, bu = false, bz = false;
            SubsystemIndex sx(s);
            switch (w) {
            case 't': if (c == 'P') return false; st.updTime(); g = Stage::Time; break;
            case 'y': if (c == 'P') return false; st.updY(); g = Stage::Position; bq = bu = bz = true; break;
            case 'q': if (c == 'U') st.updQ(); else st.updQ(sx); g = Stage::Position; bq = true; break;
            case 'u': if (c == 'U') st.updU(); else st.updU(sx); g = Stage::Velocity; bu = true; break;
            case 'z': if (c == 'U') st.updZ(); else st.updZ(sx); g = Stage::Dynamics; bz = true; break;
            case 'w': if (c == 'U') st.updUWeights(); else st.updUWeights(sx); g = Stage::Report; break;
            case 'W': if (c == 'U') { st.updZWeights(); g = Stage::Dynamics; /* documented Report; code is conservative (note in evidence) */ }
                      else { st.updZWeights(sx); g = Stage::Report; } break;
            case 'e': if (c == 'U') st.updQErrWeights(); else st.updQErrWeights(sx); g = Stage::Position; break;
            case 'E': if (c == 'U') st.updUErrWeights(); else st.updUErrWeights(sx); g = Stage::Velocity; break;
            default: return false;
            }
            m_invalidate(m, g);
            if (bq) m.qv++; if (bu) m.uv++; if (bz) m.zv++;
            return true;
        }
        if (c == 'D') {
            int s = dig(t[1]), k = dig(t[2]);
            if (s >= (int)m.sub.size() || k >= (int)m.sub[s].dv.size()) return false;
            int g = m.sub[s].dv[k].inv;
            st.updDiscreteVariable(SubsystemIndex(s), DiscreteVariableIndex(k));
            m_invalidate(m, g);
            return true;
        }
        if (c == 'I') { int g = dig(t[1]); if (g < 1 || g > 9) return false; st.invalidateAll(Stage(g)); m_invalidate(m, g); return true; }
        if (c == 'J') { int g = dig(t[1]); if (g < 3 || g > 9) return false; st.invalidateAllCacheAtOrAbove(Stage(g)); m_invalidate(m, g); return true; }
        if (c == 'C' || c == '=') {
            State cp;
            if (c == 'C') cp = State(st);
            else {   // assignment into a state with its own (different) history
                cp.setNumSubsystems(1); cp.allocateCacheEntry(SubsystemIndex(0), Stage::Time, Stage::Infinity, new Value<Real>(0));
                for (int g = 1; g <= 6; g++) { cp.advanceSubsystemToStage(SubsystemIndex(0), Stage(g)); cp.advanceSystemToStage(Stage(g)); }
                cp.invalidateAll(Stage::Time);
                cp = st;
            }
            // documented copy rules, checked against the source model, then versions adopted from the real copy
            Model n = m; const StateImpl& ci = cp.getImpl();
            n.sys = std::min(m.sys, (int)Stage::Instance);
            CHECK((int)cp.getSystemStage() == n.sys, "copy: system stage " << (int)cp.getSystemStage() << " != min(src, Instance) = " << n.sys);
            for (int i = 1; i < NST && fail.empty(); i++) {
                long long v = ci.systemStageVersions[i];
                if (i <= n.sys) CHECK(v == m.sysver[i], "copy: system version of copied stage " << i << " not kept");
                else if (i <= m.sys) CHECK(v > m.sysver[i], "copy: system version of later stage " << i << " not greater than the source's");
                n.sysver[i] = v;
            }
            if (m.sys >= Stage::Model) CHECK(cp.getQValueVersion() == m.qv && cp.getUValueVersion() == m.uv && cp.getZValueVersion() == m.zv, "copy: q/u/z value versions of copied variables not kept");
            n.qv = cp.getQValueVersion(); n.uv = cp.getUValueVersion(); n.zv = cp.getZValueVersion();
            for (int s = 0; s < (int)m.sub.size() && fail.empty(); s++) {
                MSub& d = n.sub[s]; const MSub& o = m.sub[s];
                d.stage = std::min(o.stage, (int)Stage::Instance);
                CHECK((int)cp.getSubsystemStage(SubsystemIndex(s)) == d.stage, "copy: subsystem " << s << " stage != min(src, Instance)");
                while (!d.ce.empty() && d.ce.back().alloc > d.stage) d.ce.pop_back();
                while (!d.dv.empty() && d.dv.back().alloc > d.stage) d.dv.pop_back();
                for (auto& e : d.ce) e.flag = true;     // no prerequisites: registerWithPrerequisites sets the flag
                const StageVersion* v = ci.getSubsystemStageVersions(s);
                for (int i = 0; i < NST; i++) {
                    if (i <= d.stage) CHECK(v[i] == o.ver[i], "copy: subsystem " << s << " version of copied stage " << i << " not kept (" << v[i] << " vs " << o.ver[i] << ")");
                    else if (!lenient_copy_versions) CHECK(v[i] > o.ver[i], "copy: subsystem " << s << " version of LATER stage " << i << " is " << v[i] << ", not greater than the source's " << o.ver[i]
                               << " (a stamp recorded in the source can look valid in the copy)");
                    d.ver[i] = v[i];
                }
            }
            st = std::move(cp); m = n;
            return true;
        }
        return false;
    }
};

static bool runScript(const std::string& script, bool verbose) {
    fail.clear();
    Run r; std::istringstream is(script); std::string tok; std::string done;
    try {
        while (is >> tok) {
            if (!r.step(tok)) continue;
            done += tok + " ";
            compare(r.st, r.m, tok.c_str());
            if (!fail.empty()) break;
        }
    } catch (const std::exception& e) {
        fail = std::string("exception after '") + done + "': " + e.what();
    }
    if (!fail.empty()) { std::cout << "REPRODUCED: script \"" << done << "\": " << fail << "\n"; return true; }
    if (verbose) std::cout << "OK: script \"" << done << "\" conforms to the model\n";
    return false;
}

static std::string randomScript(std::mt19937& g, int len) {
    auto R = [&](int n) { return (int)(g() % n); };
    std::ostringstream o; int ns = 1 + R(3);
    o << "S" << ns << " ";
    const char* D = "123456789A";
    int pre = 2 + R(5);
    for (int i = 0; i < pre; i++) {
        int k = R(6);
        if (k == 0) o << "a" << "quz"[R(3)] << " ";
        else if (k <= 3) { int d = 1 + R(9); int c = d + R(11 - d); o << "c" << R(ns) << D[d - 1] << D[c - 1] << " "; }
        else if (k == 4) o << "v" << R(ns) << D[R(9)] << " ";
        else o << "R" << D[R(2)] << " ";
    }
    for (int i = 0; i < len; i++) {
        int k = R(20);
        if (k < 4) o << "R" << D[R(9)] << " ";
        else if (k < 8) o << "m" << R(ns) << R(4) << " ";
        else if (k < 9) o << "x" << R(ns) << R(4) << " ";
        else if (k < 13) o << "U" << "tyquzwWeE"[R(9)] << " ";
        else if (k < 15) o << "P" << "quzwWeE"[R(7)] << R(ns) << " ";
        else if (k < 16) o << "D" << R(ns) << R(3) << " ";
        else if (k < 17) o << "I" << D[R(9)] << " ";
        else if (k < 18) o << "J" << D[2 + R(7)] << " ";
        else if (k < 19) o << "C ";
        else { int d = 1 + R(9); o << "c" << R(ns) << D[d - 1] << D[d - 1 + R(11 - d)] << " "; }
    }
    return o.str();
}

int main(int argc, char** argv) {
    std::string mode = argc > 1 ? argv[1] : "";
    if (mode == "script" && argc > 2) return runScript(argv[2], true) ? 1 : 0;
    if (mode == "copywitness") {
        // F5: entry marked at version 1 of Position, q changed (source: stale, invalid), copy, re-realize
        bool a = runScript("S1 aq c05A R5 m00 Uq C R5", true);
        bool b = runScript("S1 aq c05A R5 m00 Uq = R5", true);
        lenient_copy_versions = true;            // now through the public API only: isCacheValueRealized() of the copy
        bool c = runScript("S1 aq c05A R5 m00 Uq C R5", true);
        return (a || b || c) ? 1 : 0;
    }
    if (mode == "search" && argc > 4) {
        std::mt19937 g((unsigned)std::atol(argv[2])); int n = std::atoi(argv[3]), len = std::atoi(argv[4]);
        for (int i = 0; i < n; i++) { std::string s = randomScript(g, len); if (runScript(s, false)) return 1; }
        std::cout << "NOT-REPRODUCED: " << n << " random scripts of length " << len << " conform to the model\n";
        return 0;
    }
    std::cerr << "usage: c18_replay script \"<tokens>\" | search <seed> <nseq> <len> | copywitness\n";
    return 2;
}
