// Native replay for C28/C27 rate helpers: evaluates the REAL Rotation.h static helpers
// (header-only, included from the current tree) at the verifier's counter-model point and
// compares against finite differences / matrix definitions.
// usage: c28_replay q0 q1 q2 w0 w1 w2 wd0 wd1 wd2 e0 e1 e2 e3
#include "SimTKcommon.h"
#include <cstdio>
#include <cstdlib>
#include <cmath>
using namespace SimTK;
static int bad = 0;
static void rep(const char* what, double resid, double tol=1e-6) {
  printf("%-70s residual %.3e %s\n", what, resid, resid > tol ? "MISMATCH" : "ok");
  if (!(resid <= tol)) bad++;
}
template <class M> static double nrm(const M& m) { double s=0; for (int i=0;i<m.nrow();++i) for (int j=0;j<m.ncol();++j) s+=m(i,j)*m(i,j); return std::sqrt(s); }
static double nrmv(const Vec3& v){return v.norm();} static double nrmv(const Vec4& v){return v.norm();}
static Rotation Rxyz(const Vec3& q){ Rotation R; R.setRotationToBodyFixedXYZ(q); return R; }
int main(int argc, char** argv) {
  if (argc < 14) return 2;
  double a[13]; for (int i=0;i<13;i++) a[i]=atof(argv[i+1]);
  Vec3 q(a[0],a[1],a[2]), w(a[3],a[4],a[5]), wd(a[6],a[7],a[8]); Vec4 e(a[9],a[10],a[11],a[12]);
  const double h = 1e-6;
  Mat33 NB = Rotation::calcNForBodyXYZInBodyFrame(q), NBi = Rotation::calcNInvForBodyXYZInBodyFrame(q);
  Mat33 NP = Rotation::calcNForBodyXYZInParentFrame(q), NPi = Rotation::calcNInvForBodyXYZInParentFrame(q);
  rep("N_B*NInv_B == I", nrm(Mat33(NB*NBi - Mat33(1)))); rep("N_P*NInv_P == I", nrm(Mat33(NP*NPi - Mat33(1))));
  // kinematics: R(q + h qdot) ~ R(q) (I + h [w]x)
  { Vec3 qd = NB*w; Mat33 dR = (Mat33(Rxyz(q+h*qd)) - Mat33(Rxyz(q-h*qd)))/(2*h); rep("d/dt R == R*[w_B]x (qdot=N_B w)", nrm(Mat33(dR - Mat33(Rxyz(q))*crossMat(w))), 1e-5); }
  { Vec3 qd = NP*w; Mat33 dR = (Mat33(Rxyz(q+h*qd)) - Mat33(Rxyz(q-h*qd)))/(2*h); rep("d/dt R == [w_P]x*R (qdot=N_P w)", nrm(Mat33(dR - crossMat(w)*Mat33(Rxyz(q)))), 1e-5); }
  { Vec3 qd(0.3,-0.7,0.45);
    Mat33 fd = (Rotation::calcNForBodyXYZInBodyFrame(q+h*qd) - Rotation::calcNForBodyXYZInBodyFrame(q-h*qd))/(2*h);
    rep("NDot_B == d/dt N_B", nrm(Mat33(Rotation::calcNDotForBodyXYZInBodyFrame(q,qd) - fd)), 1e-5);
    Mat33 fdp = (Rotation::calcNForBodyXYZInParentFrame(q+h*qd) - Rotation::calcNForBodyXYZInParentFrame(q-h*qd))/(2*h);
    rep("NDot_P == d/dt N_P", nrm(Mat33(Rotation::calcNDotForBodyXYZInParentFrame(q,qd) - fdp)), 1e-5); }
  { Vec2 c(std::cos(q[0]),std::cos(q[1])), s(std::sin(q[0]),std::sin(q[1])); double oc=1/c[1];
    rep("multiplyByBodyXYZ_N_P == N_P*w", nrmv(Vec3(Rotation::multiplyByBodyXYZ_N_P(c,s,oc,w) - NP*w)));
    rep("multiplyByBodyXYZ_NT_P == ~N_P*w", nrmv(Vec3(Rotation::multiplyByBodyXYZ_NT_P(c,s,oc,w) - ~NP*w)));
    rep("multiplyByBodyXYZ_NInv_P == NInv_P*w", nrmv(Vec3(Rotation::multiplyByBodyXYZ_NInv_P(c,s,w) - NPi*w)));
    rep("multiplyByBodyXYZ_NInvT_P == ~NInv_P*w", nrmv(Vec3(Rotation::multiplyByBodyXYZ_NInvT_P(c,s,w) - ~NPi*w)));
    // qdotdot parent: d/dt (N_P(q(t)) w(t))
    Vec3 qd = NP*w; Vec3 fd = (Rotation::calcNForBodyXYZInParentFrame(q+h*qd)*(w+h*wd) - Rotation::calcNForBodyXYZInParentFrame(q-h*qd)*(w-h*wd))/(2*h);
    rep("qdotdot parent == d/dt(N_P w)", nrmv(Vec3(Rotation::convertAngAccInParentToBodyXYZDotDot(c,s,oc,qd,wd) - fd)), 1e-5); }
  { Vec3 qd = NB*w; Vec3 fd = (Rotation::calcNForBodyXYZInBodyFrame(q+h*qd)*(w+h*wd) - Rotation::calcNForBodyXYZInBodyFrame(q-h*qd)*(w-h*wd))/(2*h);
    rep("qdotdot body == d/dt(N_B w)", nrmv(Vec3(Rotation::convertAngVelDotInBodyFrameToBodyXYZDotDot(q,w,wd) - fd)), 1e-5); }
  { Vec3 qd = Rotation::convertAngVelToBodyFixed321Dot(q,w);
    rep("321: Einv(E w) == w", nrmv(Vec3(Rotation::convertBodyFixed321DotToAngVel(q,qd) - w)));
    auto R321 = [](const Vec3& x){ Rotation R(BodyRotationSequence, x[0], ZAxis, x[1], YAxis, x[2], XAxis); return Mat33(R); };
    Mat33 dR = (R321(q+h*qd) - R321(q-h*qd))/(2*h); rep("321: d/dt R == R*[w_B]x", nrm(Mat33(dR - R321(q)*crossMat(w))), 1e-5);
    Vec3 fd = (Rotation::convertAngVelToBodyFixed321Dot(q+h*qd,w+h*wd) - Rotation::convertAngVelToBodyFixed321Dot(q-h*qd,w-h*wd))/(2*h);
    rep("321: qdotdot == d/dt(E w)", nrmv(Vec3(Rotation::convertAngVelDotToBodyFixed321DotDot(q,w,wd) - fd)), 1e-5); }
  { Vec4 en = e/e.norm();
    Mat43 N = Rotation::calcUnnormalizedNForQuaternion(e); Mat34 Ni = Rotation::calcUnnormalizedNInvForQuaternion(e);
    rep("quat: NInv*N == |q|^2 I", nrm(Mat33(Ni*N - Mat33(e.normSqr()))));
    rep("quat: q.(N w) == 0", std::fabs(dot(e, N*w)));
    Vec4 qd = Rotation::calcUnnormalizedNForQuaternion(en)*w;
    auto Rq = [](const Vec4& x){ Rotation R; R.setRotationFromQuaternion(Quaternion(x/x.norm(), true)); return Mat33(R); };
    Mat33 dR = (Rq(en+h*qd) - Rq(en-h*qd))/(2*h); rep("quat: d/dt R == [w_P]x*R", nrm(Mat33(dR - crossMat(w)*Rq(en))), 1e-5);
    Vec4 qde = N*w; Vec4 fd = (Rotation::calcUnnormalizedNForQuaternion(e+h*qde)*(w+h*wd) - Rotation::calcUnnormalizedNForQuaternion(e-h*qde)*(w-h*wd))/(2*h);
    rep("quat: qdotdot == d/dt(N w)", nrmv(Vec4(Rotation::convertAngVelDotToQuaternionDotDot(e,w,wd) - fd)), 1e-5);
    Vec4 ed(0.1,-0.2,0.3,0.05); Mat43 fdN = (Rotation::calcUnnormalizedNForQuaternion(e+h*ed) - Rotation::calcUnnormalizedNForQuaternion(e-h*ed))/(2*h);
    rep("quat: NDot(qdot) == d/dt N", nrm(Mat43(Rotation::calcUnnormalizedNDotForQuaternion(ed) - fdN)), 1e-5); }
  printf(bad ? "REPRODUCED: %d identities violated natively\n" : "NOT-REPRODUCED (%d)\n", bad);
  return bad ? 1 : 0;
}
