// Native replay for C31: compiles the REAL Random.cpp and SFMT.cpp from the current
// tree into this driver (private members opened by -Dprivate=public -Dprotected=public
// for this TU only, so that the generator buffer can be forced to the verifier's
// counterexample), calls the real getValue()/getIntValue()/setSeed() and evaluates
// the same postconditions natively.
//   usage: c31_replay uniform <min-hex> <max-hex> <v-hex>     (hex = IEEE bit pattern / u64)
//          c31_replay to_res53 <v-hex>
//          c31_replay gaussian_seed <seed> <ndraws-before>
//          c31_replay kat
#include <cstdint>
#include <cstdio>
#include <cstdlib>
#include <cstring>
#include <cmath>
#include <string>
#include <atomic>
#include <cassert>
#include "SimTKcommon/basics.h"
#define private public
#define protected public
#include REPO_RANDOM_CPP
#undef private
#undef protected
using namespace SimTK;
static double d_of(const char* h){ uint64_t b=strtoull(h,0,16); double d; memcpy(&d,&b,8); return d; }
static uint64_t u_of(const char* h){ return strtoull(h,0,16); }
int main(int argc, char** argv) {
  if (argc < 2) return 2;
  std::string m = argv[1];
  if (m == "to_res53") {
    uint64_t v = u_of(argv[2]); double r = SimTK_SFMT::to_res53(v);
    printf("to_res53(%#llx) = %.17g\n", (unsigned long long)v, r);
    bool ok = (r >= 0.0 && r < 1.0);
    printf(ok ? "NOT-REPRODUCED\n" : "REPRODUCED: to_res53 result not in [0,1)\n"); return ok ? 0 : 1;
  }
  if (m == "uniform") {
    double mn = d_of(argv[2]), mx = d_of(argv[3]); uint64_t v = u_of(argv[4]);
    Random::Uniform u(mn, mx);
    Random::Uniform::UniformImpl& impl = u.getImpl();
    impl.nextIndex = 0; impl.buffer[0] = v; impl.buffer[1] = v;
    double r = impl.getValue();
    impl.nextIndex = 0;
    int ri = u.getIntValue();
    printf("Uniform(%.17g,%.17g) with raw word %#llx -> getValue=%.17g getIntValue=%d\n", mn, mx, (unsigned long long)v, r, ri);
    bool ok = (r >= mn && r < mx);
    bool intmode = (mn == std::floor(mn) && mx == std::floor(mx) && std::fabs(mn) < 2e9 && std::fabs(mx) < 2e9);
    if (intmode) ok = ok && ((double)ri >= mn && (double)ri < mx);
    printf(ok ? "NOT-REPRODUCED\n" : "REPRODUCED: uniform value outside [min,max)\n"); return ok ? 0 : 1;
  }
  if (m == "gaussian_seed") {
    // determinism across histories: draw k values, reseed, compare with a fresh generator
    int seed = atoi(argv[2]), k = atoi(argv[3]);
    Random::Gaussian a(0,1), b(0,1);
    a.setSeed(seed+1); for (int i=0;i<k;i++) a.getValue();
    a.setSeed(seed); b.setSeed(seed);
    bool ok = true; for (int i=0;i<64;i++) { double x=a.getValue(), y=b.getValue(); if (memcmp(&x,&y,8)) ok=false; }
    printf(ok ? "NOT-REPRODUCED\n" : "REPRODUCED: Gaussian sequence after setSeed depends on history\n"); return ok ? 0 : 1;
  }
  if (m == "uniform_seed") {
    int seed = atoi(argv[2]), k = atoi(argv[3]);
    Random::Uniform a(0,1), b(0,1);
    a.setSeed(seed+1); for (int i=0;i<k;i++) a.getValue();
    a.setSeed(seed); b.setSeed(seed);
    bool ok = true; for (int i=0;i<2100;i++) { double x=a.getValue(), y=b.getValue(); if (memcmp(&x,&y,8)) ok=false; }
    printf(ok ? "NOT-REPRODUCED\n" : "REPRODUCED: Uniform sequence after setSeed depends on history\n"); return ok ? 0 : 1;
  }
  if (m == "stream") {
    // block generation (fill_array64, what Random uses) must continue the same stream as word-by-word generation
    int seed = argc > 2 ? atoi(argv[2]) : 1234; bool ok = true; long first = -1;
    SimTK_SFMT::SFMTData* a = SimTK_SFMT::createSFMTData(); SimTK_SFMT::SFMTData* b = SimTK_SFMT::createSFMTData();
    SimTK_SFMT::init_gen_rand(seed, *a); SimTK_SFMT::init_gen_rand(seed, *b);
    static uint64_t buf[1024];
    for (int blk = 0; blk < 4; ++blk) { SimTK_SFMT::fill_array64(buf, 1024, *a);
      for (int i = 0; i < 1024; ++i) { uint64_t r = SimTK_SFMT::gen_rand64(*b); if (r != buf[i]) { ok = false; if (first < 0) first = blk*1024L + i; } } }
    Random::Uniform u(0,1); u.setSeed(seed); SimTK_SFMT::SFMTData* c = SimTK_SFMT::createSFMTData(); SimTK_SFMT::init_gen_rand(seed, *c);
    for (int i = 0; i < 3000; ++i) { double x = u.getValue(), y = SimTK_SFMT::to_res53(SimTK_SFMT::gen_rand64(*c)); if (y >= 1.0) y = std::nextafter(1.0, 0.0); if (memcmp(&x,&y,8)) { ok = false; if (first < 0) first = i; } }
    printf(ok ? "NOT-REPRODUCED\n" : "REPRODUCED: block generation diverges from the sequential SFMT stream at word %ld\n", first); return ok ? 0 : 1;
  }
  if (m == "kat") {
    // supporting known-answer check: first five 32-bit outputs of reference SFMT-19937, seed 1234
    SimTK_SFMT::SFMTData* d = SimTK_SFMT::createSFMTData();
    SimTK_SFMT::init_gen_rand(1234, *d);
    const uint32_t ref[5] = {3440181298u,1564997079u,1510669302u,2930277156u,1452439940u};
    bool ok = true; for (int i=0;i<5;i++) { uint32_t x = SimTK_SFMT::gen_rand32(*d); if (x!=ref[i]) ok=false; printf("%u ", x); }
    printf("\n%s\n", ok ? "KAT-OK" : "KAT-MISMATCH"); return ok ? 0 : 1;
  }
  return 2;
}
