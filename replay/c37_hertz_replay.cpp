// Native replay for the Hertz contact law (C37, unit hertz.*): the REAL generator
// ContactForceGenerator::HertzCircular::calcContactForce (-> calcHertzContactForce, stribeck,
// step5 of the CURRENT tree's CompliantContactSubsystem.cpp, compiled into this driver) is called
// on synthetic CircularPointContact objects with random geometry, materials and relative
// velocity; the reported ContactForce is compared with the documented Hertz/Hunt-Crossley/
// Stribeck law written independently below.
#include "Simbody.h"
#include <cstdio>
#include <cstdlib>
#include <cmath>
using namespace SimTK;
static int bad = 0;
static void rep(const char* what, double resid, double tol) { if (!(resid <= tol)) { printf("%-70s residual %.3e MISMATCH\n", what, resid); bad++; } }
static double step5d(double x) { return x*x*x*(10+x*(6*x-15)); }
static double stribeckd(double us, double ud, double uv, double v) {
  double dry = v >= 3 ? ud : (v >= 1 ? us-(us-ud)*step5d((v-1)/2) : us*step5d(v)); return dry+uv*v; }
int main(int argc, char** argv) {
  unsigned seed = argc>1 ? (unsigned)atoi(argv[1]) : 0; srand(seed+777);
  auto rnd=[&](){ return 2.0*rand()/RAND_MAX-1.0; };
  try {
    for (int it=0; it<24; ++it) {
      MultibodySystem system; SimbodyMatterSubsystem matter(system);
      ContactTrackerSubsystem tracker(system); CompliantContactSubsystem ccs(system, tracker);
      double k[2]={1e3*(1+std::fabs(rnd())), 3e3*(1+std::fabs(rnd()))}, c[2]={0.3*std::fabs(rnd()), 0.2*std::fabs(rnd())};
      double us[2]={0.8+0.2*std::fabs(rnd()),0.7}, ud[2]={0.5,0.4+0.1*std::fabs(rnd())}, uv[2]={(it%3==0)?0:0.1,(it%3==0)?0:0.05};
      if (it%4==1) { us[0]=us[1]=ud[0]=ud[1]=0; }
      double vt = 0.05; ccs.setTransitionVelocity(vt);
      Body::Rigid b[2];
      for (int i=0;i<2;i++) { b[i]=Body::Rigid(MassProperties(1.0, Vec3(0), Inertia(1)));
        b[i].addContactSurface(Transform(), ContactSurface(ContactGeometry::Sphere(1.0), ContactMaterial(k[i], c[i], us[i], ud[i], uv[i]))); }
      MobilizedBody::Free m0(matter.updGround(), Transform(Vec3(-3,0,0)), b[0], Transform());
      MobilizedBody::Free m1(matter.updGround(), Transform(Vec3(3,0,0)), b[1], Transform());
      State st = system.realizeTopology(); system.realizeModel(st);
      system.realize(st, Stage::Position);
      ContactForceGenerator::HertzCircular gen; gen.setCompliantContactSubsystem(&ccs);
      // synthetic contact: everything random
      Transform X12(Rotation(rnd()*3, UnitVec3(rnd(),rnd(),rnd()+1.5)), Vec3(2*rnd(),2*rnd(),2*rnd()));
      UnitVec3 n(rnd(),rnd(),rnd()+1.2); Vec3 org(rnd(),rnd(),rnd());
      double depth = (it==7) ? -0.01 : 0.02+0.1*std::fabs(rnd()), R = 0.3+std::fabs(rnd());
      CircularPointContact contact(ContactSurfaceIndex(0), 1.0, ContactSurfaceIndex(1), 1.0, X12, R, depth, org, n);
      SpatialVec V12(Vec3(2*rnd(),2*rnd(),2*rnd()), Vec3(0.5*rnd(),0.5*rnd(),0.5*rnd()));
      if (it%5==2) V12[1] += 8.0*Vec3(n);                       // separating fast: no force
      if (it%6==3) { V12[0]=Vec3(0); V12[1] = -0.2*Vec3(n); }   // pure approach: no slip
      ContactForce cf;
      gen.calcContactForce(st, contact, V12, cf);
      // documented law
      double kA=std::pow(k[0],2./3.), kB=std::pow(k[1],2./3.), s1=kB/(kA+kB), kk=kA*s1, cc=c[0]*s1+c[1]*(1-s1);
      Vec3 nn(n);
      if (depth <= 0) { rep("no penetration: no force", cf.isValid() ? cf.getForceOnSurface2()[1].norm() : 0, 0); continue; }
      Vec3 pt = org + (depth*(0.5-s1))*nn;
      Vec3 vel = V12[1] + V12[0] % (pt - X12.p());            // velocity in S1 of the S2 material point at the contact point
      double xdot = -dot(vel, nn), fH = (4./3.)*kk*depth*std::sqrt(R*kk*depth), fN = fH*(1+1.5*cc*xdot);
      Vec3 force(0); double pe = 0, pd = 0;
      if (fN > 0) {
        force = fN*nn; pe = 0.4*fH*depth; pd = fH*1.5*cc*xdot*xdot;
        Vec3 vtan = vel + xdot*nn; double vs = vtan.norm();
        if (vs > 1e-13) { auto comb=[](double a,double b){ return (a!=0&&b!=0)? 2*a*b/(a+b):0.0; };
          double mu = stribeckd(comb(us[0],us[1]), comb(ud[0],ud[1]), comb(uv[0],uv[1])*vt, vs/vt);
          force += -(fN*mu/vs)*vtan; pd += fN*mu*vs; }
      }
      double scale = 1+fH;
      rep("contact point == origin + depth (1/2 - s1) normal", (cf.getContactPoint()-pt).norm(), 1e-12);
      rep("force on surface 2 == documented Hertz/Hunt-Crossley/Stribeck law (velocity taken AT the contact point)", (cf.getForceOnSurface2()[1]-force).norm()/scale, 1e-9);
      rep("no moment about the contact point", cf.getForceOnSurface2()[0].norm()/scale, 1e-12);
      rep("potential energy == 2/5 fH x", std::fabs(cf.getPotentialEnergy()-pe)/scale, 1e-9);
      rep("power dissipation == documented, >= 0", std::fabs(cf.getPowerDissipation()-pd)/scale + (cf.getPowerDissipation() < 0 ? 1 : 0), 1e-9);
    }
    // stribeck / step5 through the generator: friction coefficient bounded by us + uv v; checked by the ratio |friction| / normal force
  } catch (const std::exception& e) { printf("exception: %s\n", e.what()); return 3; }
  printf(bad ? "REPRODUCED: %d Hertz law checks violated natively\n" : "NOT-REPRODUCED (%d)\n", bad);
  return bad?1:0;
}
