// Native replay for C10 (first clause): links the private library build of the CURRENT tree.
// Chain of 4 sliders: #1 Motion::Sinusoid at position level (prescribed q and u), #2 Motion::Steady
// (prescribed u, q free), #3 locked at velocity level by lock(Motion::Velocity) (u known zero), #4 free.
// After System::prescribeQ / prescribeU at a few times: the prescribed entries must equal the
// documented values exactly (a*sin(w t+p), a*w*cos(w t+p), the steady rate, 0) and every other
// q/u entry must keep its bit pattern (frame); return value false iff nothing is prescribed.
#include "Simbody.h"
#include <cstdio>
#include <cstring>
#include <cmath>
using namespace SimTK;
static bool sameBits(Real a, Real b) { return std::memcmp(&a, &b, sizeof(Real)) == 0; }
int main() {
  try {
    MultibodySystem system; SimbodyMatterSubsystem matter(system); GeneralForceSubsystem forces(system);
    Body::Rigid body(MassProperties(1.0, Vec3(0), Inertia(1)));
    MobilizedBody::Slider b1(matter.Ground(), Transform(), body, Transform());
    MobilizedBody::Slider b2(b1, Transform(), body, Transform());
    MobilizedBody::Slider b3(b2, Transform(), body, Transform());
    MobilizedBody::Slider b4(b3, Transform(), body, Transform());
    const Real a = 0.7, w = 1.3, p = 0.25, rate = -2.5;
    Motion::Sinusoid m1(b1, Motion::Position, a, w, p);
    Motion::Steady m2(b2, rate);
    State s = system.realizeTopology(); system.realizeModel(s);
    b3.lock(s, Motion::Velocity);
    bool bad = false;
    const Real times[] = {0.0, 0.5, 1.0, 7.25};
    for (Real t : times) {
      s.setTime(t);
      Vector q0(4), u0(4);
      for (int i = 0; i < 4; i++) { q0[i] = 0.1 * (i + 1) + t; u0[i] = -0.3 * (i + 1) - t; }
      s.updQ() = q0; s.updU() = u0;
      system.realize(s, Stage::Time);
      bool cq = system.prescribeQ(s);
      system.realize(s, Stage::Position);
      bool cu = system.prescribeU(s);
      const Vector& q = s.getQ(); const Vector& u = s.getU();
      const Real qe = a * std::sin(w * t + p), ue = a * w * std::cos(w * t + p);
      printf("t=%g: prescribeQ->%d prescribeU->%d  q=[%.17g %.17g %.17g %.17g] u=[%.17g %.17g %.17g %.17g]\n", t, (int)cq, (int)cu, q[0], q[1], q[2], q[3], u[0], u[1], u[2], u[3]);
      if (!cq || !cu) { printf("  return value false although coordinates are prescribed\n"); bad = true; }
      if (std::fabs(q[0] - qe) > 1e-15 * (1 + std::fabs(qe))) { printf("  prescribed q[0] differs from a*sin(wt+p)=%.17g\n", qe); bad = true; }
      if (std::fabs(u[0] - ue) > 1e-15 * (1 + std::fabs(ue))) { printf("  prescribed u[0] differs from a*w*cos(wt+p)=%.17g\n", ue); bad = true; }
      if (!sameBits(u[1], rate)) { printf("  steady u[1] is not exactly %.17g\n", rate); bad = true; }
      if (!sameBits(u[2], 0.0)) { printf("  locked u[2] is not +0.0\n"); bad = true; }
      for (int i = 1; i < 4; i++) if (!sameBits(q[i], q0[i])) { printf("  frame: free q[%d] changed\n", i); bad = true; }
      if (!sameBits(u[3], u0[3])) { printf("  frame: free u[3] changed\n"); bad = true; }
    }
    // nothing prescribed: must return false and leave everything alone
    {
      MultibodySystem sys2; SimbodyMatterSubsystem mat2(sys2);
      MobilizedBody::Slider c1(mat2.Ground(), Transform(), body, Transform());
      State s2 = sys2.realizeTopology(); sys2.realizeModel(s2);
      s2.updQ()[0] = 0.5; s2.updU()[0] = -0.5;
      sys2.realize(s2, Stage::Position);
      bool cq = sys2.prescribeQ(s2), cu = sys2.prescribeU(s2);
      printf("no prescribed coordinates: prescribeQ->%d prescribeU->%d, position stage still realized: %d\n", (int)cq, (int)cu, (int)(s2.getSystemStage() >= Stage::Position));
      if (cq || cu || !(s2.getSystemStage() >= Stage::Position) || !sameBits(s2.getQ()[0], 0.5) || !sameBits(s2.getU()[0], -0.5)) bad = true;
    }
    if (bad) { printf("REPRODUCED: prescribed values not copied exactly / frame violated\n"); return 1; }
    printf("NOT-REPRODUCED\n"); return 0;
  } catch (const std::exception& e) { printf("exception: %s\nNOT-REPRODUCED\n", e.what()); return 3; }
}
