// Native replay for C41: real step functions and Function_ classes vs central finite differences.
// usage: c41_replay x t
#include "SimTKcommon.h"
#include <cstdio>
#include <cstdlib>
#include <cmath>
using namespace SimTK;
static int bad = 0;
static void rep(const char* what, double resid, double tol) { if (!(resid <= tol)) { printf("%-64s residual %.3e MISMATCH\n", what, resid); bad++; } }
template <class F> static double fd(F f, double x, double h=1e-5){ return (f(x+h)-f(x-h))/(2*h); }
int main(int argc, char** argv) {
  if (argc < 3) return 2;
  double x = atof(argv[1]), t = atof(argv[2]); if (!(x>0.01 && x<0.99)) x = 0.37;
  rep("dstepUp == d/dx stepUp", std::fabs(dstepUp(x)-fd([](double v){return stepUp(v);},x)), 1e-6);
  rep("d2stepUp == d/dx dstepUp", std::fabs(d2stepUp(x)-fd([](double v){return dstepUp(v);},x)), 1e-6);
  rep("d3stepUp == d/dx d2stepUp", std::fabs(d3stepUp(x)-fd([](double v){return d2stepUp(v);},x)), 1e-5);
  rep("dstepDown == d/dx stepDown", std::fabs(dstepDown(x)-fd([](double v){return stepDown(v);},x)), 1e-6);
  rep("d2stepDown == d/dx dstepDown", std::fabs(d2stepDown(x)-fd([](double v){return dstepDown(v);},x)), 1e-6);
  rep("d3stepDown == d/dx d2stepDown", std::fabs(d3stepDown(x)-fd([](double v){return d2stepDown(v);},x)), 1e-5);
  rep("stepUp(0)==0", std::fabs(stepUp(0.0)), 0); rep("stepUp(1)==1", std::fabs(stepUp(1.0)-1), 0);
  rep("dstepUp ends", std::fabs(dstepUp(0.0))+std::fabs(dstepUp(1.0)), 0); rep("d2stepUp ends", std::fabs(d2stepUp(0.0))+std::fabs(d2stepUp(1.0)), 0);
  { float xf=(float)x; rep("float dstepUp", std::fabs(dstepUp(xf)-(stepUp(xf+1e-2f)-stepUp(xf-1e-2f))/2e-2f), 2e-2);
    rep("float d2stepUp", std::fabs(d2stepUp(xf)-(dstepUp(xf+1e-2f)-dstepUp(xf-1e-2f))/2e-2f), 5e-2); rep("float d3stepUp", std::fabs(d3stepUp(xf)-(d2stepUp(xf+1e-2f)-d2stepUp(xf-1e-2f))/2e-2f), 2e-1); }
  { double y0=-1.5,yr=2.5,x0=0.25,oox=1/1.5, xx=x0+x/oox;
    rep("dstepAny", std::fabs(dstepAny(yr,x0,oox,xx)-fd([&](double v){return stepAny(y0,yr,x0,oox,v);},xx)), 1e-6);
    rep("d2stepAny", std::fabs(d2stepAny(yr,x0,oox,xx)-fd([&](double v){return dstepAny(yr,x0,oox,v);},xx)), 1e-6);
    rep("d3stepAny", std::fabs(d3stepAny(yr,x0,oox,xx)-fd([&](double v){return d2stepAny(yr,x0,oox,v);},xx)), 1e-5);
    rep("stepAny ends", std::fabs(stepAny(y0,yr,x0,oox,x0)-y0)+std::fabs(stepAny(y0,yr,x0,oox,x0+1/oox)-(y0+yr)), 1e-12); }
  auto derivs = [&](const Function& f, const char* nm, int maxo, double at){
    for (int o=1;o<=maxo;o++){ Array_<int> c(o,0), cm(o-1,0); Vector v(1);
      auto g=[&](double z){ v[0]=z; return o==1? f.calcValue(v) : f.calcDerivative(cm,v); };
      double num = fd(g, at); v[0]=at; char b[100]; sprintf(b,"%s order %d",nm,o); rep(b, std::fabs(f.calcDerivative(c,v)-num), 1e-4*(1+std::fabs(num))); } };
  { Vector co(5); co[0]=0.7; co[1]=-1.3; co[2]=2.1; co[3]=0.4; co[4]=-0.9; Function::Polynomial p(co); derivs(p,"Polynomial",4,t); }
  { Function::Sinusoid s(1.7,2.3,0.4); derivs(s,"Sinusoid",3,t); }
  { Function::Step s(-1.0,2.0,0.2,1.9); derivs(s,"Step up",3,0.2+1.7*x); Function::Step r(-1.0,2.0,1.9,0.2); derivs(r,"Step reversed",3,0.2+1.7*x);
    Vector v(1); v[0]=0.1; rep("Step before", std::fabs(s.calcValue(v)+1.0),0); v[0]=2.5; rep("Step after", std::fabs(s.calcValue(v)-2.0),0); }
  { Vector co(3); co[0]=1.5; co[1]=-2.5; co[2]=0.3; Function::Linear l(co); Vector v(2); v[0]=t; v[1]=x; Array_<int> c0(1,0), c1(1,1);
    rep("Linear d/dx0", std::fabs(l.calcDerivative(c0,v)-1.5),1e-12); rep("Linear d/dx1", std::fabs(l.calcDerivative(c1,v)+2.5),1e-12); rep("Linear value", std::fabs(l.calcValue(v)-(1.5*t-2.5*x+0.3)),1e-12); }
  printf(bad ? "REPRODUCED: %d identities violated natively\n" : "NOT-REPRODUCED (%d)\n", bad);
  return bad?1:0;
}
