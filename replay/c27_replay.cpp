// Native replay for C27: real Rotation code at the verifier's counter-model point.
// usage: c27_replay t0 t1 t2 p0 p1 p2 p3
#include "SimTKcommon.h"
#include <cstdio>
#include <cstdlib>
#include <cmath>
using namespace SimTK;
static int bad = 0;
static void rep(const char* what, double resid, double tol=1e-9) {
  if (!(resid <= tol)) { printf("%-60s residual %.3e MISMATCH\n", what, resid); bad++; }
}
static double nrm(const Mat33& m){ double s=0; for(int i=0;i<3;i++)for(int j=0;j<3;j++) s+=m(i,j)*m(i,j); return std::sqrt(s); }
static Mat33 El(int k, double a){ double c=std::cos(a), s=std::sin(a);
  if(k==0) return Mat33(1,0,0, 0,c,-s, 0,s,c); if(k==1) return Mat33(c,0,s, 0,1,0, -s,0,c); return Mat33(c,-s,0, s,c,0, 0,0,1); }
int main(int argc, char** argv) {
  if (argc < 8) return 2;
  double t[3] = {atof(argv[1]),atof(argv[2]),atof(argv[3])}; Vec4 p(atof(argv[4]),atof(argv[5]),atof(argv[6]),atof(argv[7])); p = p/p.norm();
  const CoordinateAxis ax[3] = {XAxis, YAxis, ZAxis}; char nm[200];
  for (int k=0;k<3;k++){ Rotation R; R.setRotationFromAngleAboutAxis(t[0], ax[k]); sprintf(nm,"AboutAxis %d",k); rep(nm, nrm(Mat33(Mat33(R)-El(k,t[0])))); }
  for (int bs=0;bs<2;bs++) for(int i=0;i<3;i++) for(int j=0;j<3;j++) {
    Rotation R; R.setRotationFromTwoAnglesTwoAxes(bs?SpaceRotationSequence:BodyRotationSequence, t[0],ax[i], t[1],ax[j]);
    Mat33 O = bs? El(j,t[1])*El(i,t[0]) : El(i,t[0])*El(j,t[1]); sprintf(nm,"%s two-angle %d%d",bs?"space":"body",i,j); rep(nm, nrm(Mat33(Mat33(R)-O)));
    for(int k=0;k<3;k++){ Rotation R3; R3.setRotationFromThreeAnglesThreeAxes(bs?SpaceRotationSequence:BodyRotationSequence, t[0],ax[i], t[1],ax[j], t[2],ax[k]);
      Mat33 O3 = bs? El(k,t[2])*El(j,t[1])*El(i,t[0]) : El(i,t[0])*El(j,t[1])*El(k,t[2]); sprintf(nm,"%s three-angle %d%d%d",bs?"space":"body",i,j,k);
      rep(nm, nrm(Mat33(Mat33(R3)-O3))); rep("orthonormal", nrm(Mat33(Mat33(R3)*~Mat33(R3)-Mat33(1)))); rep("det", std::fabs(det(Mat33(R3))-1)); } }
  { Rotation R; R.setRotationFromQuaternion(Quaternion(p,true)); rep("quat orthonormal", nrm(Mat33(Mat33(R)*~Mat33(R)-Mat33(1)))); rep("quat det", std::fabs(det(Mat33(R))-1));
    Quaternion q = R.convertRotationToQuaternion(); Rotation Rb; Rb.setRotationFromQuaternion(q); rep("quat round trip", nrm(Mat33(Mat33(Rb)-Mat33(R)))); rep("quat unit", std::fabs(q.asVec4().norm()-1)); rep("quat canonical", q[0] < 0 ? 1 : 0);
    SymMat33 S(1.5, 0.2,2.5, -0.3,0.4,3.5); SymMat33 out = R.reexpressSymMat33(S); Mat33 ref = Mat33(R)*Mat33(S)*~Mat33(R); rep("reexpressSymMat33", nrm(Mat33(Mat33(out)-ref))); }
  // angle-extraction round trips, generic and at the exact singularities of the middle angle
  { const double mids[5] = {t[1], 0.0, Pi, -Pi, Pi/2};
    for (int bs=0;bs<2;bs++) for(int i=0;i<3;i++) for(int j=0;j<3;j++) for(int k=0;k<3;k++) { if (i==j||j==k) continue;
      for (int m=0;m<5;m++) { if (m==4 && i==k) continue; if ((m==1||m==2||m==3) && i!=k) continue;
        BodyOrSpaceType B = bs?SpaceRotationSequence:BodyRotationSequence;
        Rotation R0; R0.setRotationFromThreeAnglesThreeAxes(B, t[0],ax[i], mids[m],ax[j], t[2],ax[k]);
        Vec3 a = R0.convertThreeAxesRotationToThreeAngles(B, ax[i],ax[j],ax[k]);
        Rotation R1; R1.setRotationFromThreeAnglesThreeAxes(B, a[0],ax[i], a[1],ax[j], a[2],ax[k]);
        sprintf(nm,"%s %d%d%d middle=%g: R(convertToAngles(R))==R",bs?"space":"body",i,j,k,mids[m]); rep(nm, nrm(Mat33(Mat33(R1)-Mat33(R0))), 1e-7); } }
    for (int i=0;i<3;i++) for (int m=0;m<2;m++) { double mid = m? -Pi/2 : Pi/2; for (int bs=0;bs<2;bs++) { int j=(i+1)%3,k=(i+2)%3; BodyOrSpaceType B = bs?SpaceRotationSequence:BodyRotationSequence;
        Rotation R0; R0.setRotationFromThreeAnglesThreeAxes(B, t[0],ax[i], mid,ax[j], t[2],ax[k]); Vec3 a = R0.convertThreeAxesRotationToThreeAngles(B, ax[i],ax[j],ax[k]);
        Rotation R1; R1.setRotationFromThreeAnglesThreeAxes(B, a[0],ax[i], a[1],ax[j], a[2],ax[k]); rep("three-axis gimbal lock round trip", nrm(Mat33(Mat33(R1)-Mat33(R0))), 1e-7);
        Rotation R2; R2.setRotationFromThreeAnglesThreeAxes(B, t[0],ax[k], mid,ax[j], t[2],ax[i]); Vec3 b = R2.convertThreeAxesRotationToThreeAngles(B, ax[k],ax[j],ax[i]);
        Rotation R3; R3.setRotationFromThreeAnglesThreeAxes(B, b[0],ax[k], b[1],ax[j], b[2],ax[i]); rep("three-axis gimbal lock round trip (reverse cyclical)", nrm(Mat33(Mat33(R3)-Mat33(R2))), 1e-7); } } }
  // quaternion -> angle-axis, canonical and non-canonical unit quaternions
  for (int sgn=0; sgn<2; sgn++) { Vec4 e = sgn? Vec4(-p) : p; Quaternion q(e, true); Vec4 av = q.convertQuaternionToAngleAxis();
    Rotation Ra; if (Vec3(av[1],av[2],av[3]).norm() > 0) Ra.setRotationFromAngleAboutNonUnitVector(av[0], Vec3(av[1],av[2],av[3])); Rotation Rq; Rq.setRotationFromQuaternion(q);
    rep(sgn? "angle-axis of non-canonical quaternion describes R(q)":"angle-axis of quaternion describes R(q)", nrm(Mat33(Mat33(Ra)-Mat33(Rq))), 1e-9); }
  { Quaternion a(Vec4(0.5,0.5,0.5,0.5),true); Vec4 prod = Vec4(a[0]*a[0]-a[1]*a[1]-a[2]*a[2]-a[3]*a[3], 2*a[0]*a[1], 2*a[0]*a[2], 2*a[0]*a[3]);   // 120 deg twice about the same axis: scalar part -0.5
    Quaternion q(prod,true); Vec4 av=q.convertQuaternionToAngleAxis(); Rotation Ra; Ra.setRotationFromAngleAboutNonUnitVector(av[0], Vec3(av[1],av[2],av[3])); Rotation Rq; Rq.setRotationFromQuaternion(q);
    rep("angle-axis of q120*q120", nrm(Mat33(Mat33(Ra)-Mat33(Rq))), 1e-9); }
  // sweep quaternion branches too
  for (int b=0;b<4;b++){ Vec4 e(0.1,0.1,0.1,0.1); e[b]=0.95; e=e/e.norm(); Rotation R; R.setRotationFromQuaternion(Quaternion(e,true)); Quaternion q=R.convertRotationToQuaternion(); Rotation Rb; Rb.setRotationFromQuaternion(q); sprintf(nm,"quat round trip branch %d",b); rep(nm, nrm(Mat33(Mat33(Rb)-Mat33(R)))); }
  printf(bad ? "REPRODUCED: %d identities violated natively\n" : "NOT-REPRODUCED (%d)\n", bad);
  return bad?1:0;
}
