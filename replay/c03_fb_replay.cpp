// Native witness search for the FunctionBased H / HDot cache (C03, part_c03_fb).
// For nu = 1..6: a FunctionBased mobilizer with nu body-fixed-rotation/translation coordinates (H depends on q as soon as two
// rotations are active) + a Pin child.  One State object is realized to Acceleration at (q1,u1), then reused at (q2,u2), (q3,u3);
// body velocities and accelerations are compared with those from a FRESH State at the same (q,u,) (same system, never realized before).
// MobilizedBody.cpp is compiled from the current tree into this driver, so the inline FunctionBasedImpl of MobilizedBodyImpl.h is the current one.
#include "SimTKsimbody.h"
#include <cstdio>
#include <vector>
using namespace SimTK;

static int makeFunctions(int ndof, std::vector<const Function*>& functions, std::vector<std::vector<int> >& coordIndices) {
    int nm = 0;
    for (int i = 0; i < 6; ++i) {
        if (i < ndof) {
            Vector coef(2); coef[0] = 1 + 0.1*i; coef[1] = 0.05*i;
            functions.push_back(new Function::Linear(coef));
            coordIndices.push_back(std::vector<int>(1, nm++));
        } else {
            functions.push_back(new Function::Constant(0.2, 0));
            coordIndices.push_back(std::vector<int>());
        }
    }
    return nm;
}

int main() {
    bool reproduced = false;
    for (int nu = 1; nu <= 6; ++nu) {
        MultibodySystem system; SimbodyMatterSubsystem matter(system);
        GeneralForceSubsystem forces(system); Force::UniformGravity(forces, matter, Vec3(0.3, -9.8, 0.7));
        Body::Rigid body(MassProperties(2.5, Vec3(.1,-.2,.3), UnitInertia(1,1.5,2,.1,.2,.3)*2.5));
        const Transform X_PF(Rotation(Pi/3, Vec3(.1,-.3,.3)), Vec3(-.4,.5,-1)), X_BM(Rotation(-Pi/7, Vec3(.7,.5,.3)), Vec3(.2,1.5,.1));
        std::vector<const Function*> f; std::vector<std::vector<int> > c;
        const int n = makeFunctions(nu, f, c);
        MobilizedBody::FunctionBased fb(matter.Ground(), X_PF, body, X_BM, n, f, c);
        MobilizedBody::Pin tip(fb, X_PF, body, X_BM);
        State reused = system.realizeTopology(); system.realizeModel(reused);
        Random::Uniform rand(-1, 1); rand.setSeed(1000 + nu);
        for (int k = 0; k < 3; ++k) {
            Vector q(reused.getNQ()), u(reused.getNU());
            for (int i = 0; i < q.size(); ++i) q[i] = rand.getValue();
            for (int i = 0; i < u.size(); ++i) u[i] = rand.getValue();
            reused.setQ(q); reused.setU(u);
            system.realize(reused, Stage::Acceleration);
            State fresh = system.realizeTopology(); system.realizeModel(fresh);
            fresh.setQ(q); fresh.setU(u);
            system.realize(fresh, Stage::Acceleration);
            Real worst = 0;
            for (MobilizedBodyIndex mbx(1); mbx < matter.getNumBodies(); ++mbx) {
                const MobilizedBody& mb = matter.getMobilizedBody(mbx);
                for (int b = 0; b < 2; ++b) {
                    worst = std::max(worst, (mb.getBodyVelocity(reused)[b] - mb.getBodyVelocity(fresh)[b]).norm());
                    worst = std::max(worst, (mb.getBodyAcceleration(reused)[b] - mb.getBodyAcceleration(fresh)[b]).norm());
                    worst = std::max(worst, (mb.getMobilizerVelocity(reused)[b] - mb.getMobilizerVelocity(fresh)[b]).norm());
                }
            }
            std::printf("nu=%d reuse#%d: max |reused - fresh| over V_GB, A_GB, V_FM = %.3e\n", nu, k, worst);
            if (worst > 1e-9) {
                std::printf("REPRODUCED: FunctionBased mobilizer with nu=%d: a State reused at a new (q,u) reports velocities/accelerations that differ by %.3e "
                            "from a fresh State at the same (q,u) (stale H or HDot)\n", nu, worst);
                reproduced = true;
            }
        }
    }
    if (!reproduced) std::printf("NOT-REPRODUCED\n");
    return 0;
}
