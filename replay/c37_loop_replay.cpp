// Native replay for the HuntCrossley contact-loop obligation (part of C37): links the private
// library build of the CURRENT tree. Two unit spheres over a half-space in ONE contact set, both
// penetrating by 0.1. Postcondition (from the loop contract): the force applied for a point
// contact with positive Hunt-Crossley force does not depend on what the other contacts of the set
// do. The driver compares the contact force on a RESTING sphere when the other sphere is (a) also
// at rest, (b) separating fast (its own force f <= 0). Both orders are tried.
#include "Simbody.h"
#include <cstdio>
#include <cmath>
using namespace SimTK;

int main() {
  try {
    MultibodySystem system; SimbodyMatterSubsystem matter(system);
    GeneralContactSubsystem contacts(system); GeneralForceSubsystem forces(system);
    Body::Rigid body(MassProperties(1.0, Vec3(0), Inertia(1)));
    ContactSetIndex set = contacts.createContactSet();
    MobilizedBody::Translation s1(matter.updGround(), Transform(Vec3(-5, 0, 0)), body, Transform());
    MobilizedBody::Translation s2(matter.updGround(), Transform(Vec3(5, 0, 0)), body, Transform());
    contacts.addBody(set, s1, ContactGeometry::Sphere(1.0), Transform());
    contacts.addBody(set, s2, ContactGeometry::Sphere(1.0), Transform());
    contacts.addBody(set, matter.updGround(), ContactGeometry::HalfSpace(), Transform(Rotation(-0.5 * Pi, ZAxis), Vec3(0)));
    HuntCrossleyForce hc(forces, contacts, set);
    for (int i = 0; i < 3; i++) hc.setBodyParameters(ContactSurfaceIndex(i), 1e4, 1.0, 0, 0, 0);
    hc.setTransitionVelocity(0.001);
    State st = system.realizeTopology(); system.realizeModel(st);
    MobilizedBody::Translation* sp[2] = {&s1, &s2};
    Real rest[2], got[2][2];
    for (int k = 0; k < 2; k++) sp[k]->setQToFitTranslation(st, Vec3(0, 0.9, 0));
    for (int k = 0; k < 2; k++) sp[k]->setUToFitLinearVelocity(st, Vec3(0));
    system.realize(st, Stage::Dynamics);
    for (int k = 0; k < 2; k++) rest[k] = system.getRigidBodyForces(st, Stage::Dynamics)[sp[k]->getMobilizedBodyIndex()][1][1];
    printf("both spheres at rest, depth 0.1: normal force on sphere1 = %.10g, on sphere2 = %.10g\n", rest[0], rest[1]);
    bool bad = false;
    for (int fast = 0; fast < 2; fast++) {
      int slow = 1 - fast;
      sp[fast]->setUToFitLinearVelocity(st, Vec3(0, 100, 0));   // separating: its f = fH*(1-150) < 0
      sp[slow]->setUToFitLinearVelocity(st, Vec3(0));
      system.realize(st, Stage::Dynamics);
      Real fs = system.getRigidBodyForces(st, Stage::Dynamics)[sp[slow]->getMobilizedBodyIndex()][1][1];
      Real ff = system.getRigidBodyForces(st, Stage::Dynamics)[sp[fast]->getMobilizedBodyIndex()][1][1];
      printf("sphere%d separating at 100, sphere%d resting: force on resting sphere%d = %.10g (expected %.10g), on separating sphere%d = %.10g (expected 0)\n",
             fast + 1, slow + 1, slow + 1, fs, rest[slow], fast + 1, ff);
      if (std::fabs(fs - rest[slow]) > 1e-9 * std::fabs(rest[slow]) || !(rest[slow] > 0)) bad = true;
      if (ff != 0) bad = true;
    }
    if (bad) { printf("REPRODUCED: the force of a resting point contact depends on another contact of the set (contact dropped after a non-positive force)\n"); return 1; }
    printf("NOT-REPRODUCED\n"); return 0;
  } catch (const std::exception& e) { printf("exception: %s\nNOT-REPRODUCED\n", e.what()); return 3; }
}
