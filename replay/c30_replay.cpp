// Native replay for C30 (quadratic kernel): the real PolynomialRootFinder.cpp of the tree under test is compiled in.
#include "SimTKcommon.h"
#include <cstdio>
#include <cstdlib>
#include <cmath>
using namespace SimTK;
static int bad = 0;
static void rep(const char* what, double resid, double tol) { if (!(resid <= tol)) { printf("%-60s residual %.3e MISMATCH\n", what, resid); bad++; } }
int main(int argc, char** argv) {
  unsigned seed = argc>1 ? (unsigned)atoi(argv[1]) : 0; srand(seed+31);
  auto rnd=[&](){ return 4.0*rand()/RAND_MAX-2.0; };
  for (int it=0; it<200; ++it) {
    double a = rnd(), b = (it%4==0) ? 0.0 : rnd(), c = rnd(); if (std::fabs(a) < 0.05) a = 0.7; if (it%8==4) c = b*b/(4*a);   // b==0 and repeated-root cases included
    Vec<3,Real> co(a,b,c); Vec<2,Complex> r; PolynomialRootFinder::findRoots(co, r);
    double scale = 1+std::fabs(a)+std::fabs(b)+std::fabs(c);
    for (int k=0;k<2;k++) rep("real coefficients: a r^2 + b r + c == 0", std::abs(a*r[k]*r[k]+b*r[k]+c)/scale, 1e-6);
    rep("real coefficients: Vieta sum", std::abs(a*(r[0]+r[1])+b)/scale, 1e-6); rep("real coefficients: Vieta product", std::abs(a*r[0]*r[1]-c)/scale, 1e-6);
    Complex ca(a, rnd()), cb = (it%4==0) ? Complex(0) : Complex(b, rnd()), cc(c, rnd());
    Vec<3,Complex> cco(ca,cb,cc); Vec<2,Complex> cr; PolynomialRootFinder::findRoots(cco, cr);
    double cs = 1+std::abs(ca)+std::abs(cb)+std::abs(cc);
    for (int k=0;k<2;k++) rep("complex coefficients: a r^2 + b r + c == 0", std::abs(ca*cr[k]*cr[k]+cb*cr[k]+cc)/cs, 1e-6);
    rep("complex coefficients: Vieta sum", std::abs(ca*(cr[0]+cr[1])+cb)/cs, 1e-6); rep("complex coefficients: Vieta product", std::abs(ca*cr[0]*cr[1]-cc)/cs, 1e-6);
  }
  printf(bad ? "REPRODUCED: %d root checks violated natively\n" : "NOT-REPRODUCED (%d)\n", bad);
  return bad?1:0;
}
