// Native replay for the Force::Gravity caching unit (part of C38): drives the REAL Force::Gravity of
// the CURRENT tree (Force.cpp and Force_Gravity.cpp of the tree are compiled into this driver, so
// VERIF_REPO scratch worktrees are honoured) through sequences of State-based setters and compares,
// after every step,
//     getBodyForces(state)[i], getPotentialEnergy(state), the rigid body forces that reach the
//     System (calcForce) and the getters
// with the documented values for the parameters NOW in the state:
//     F_i = 0 if body i is excluded, is Ground, or g == 0, else (p_CB_G % m g d, m g d);
//     PE  = - sum over non-excluded bodies of m (g d . p_G_CB + g z)        (closed form, recomputed here)
// and with a brand-new state that received the same final parameter values.
//   usage: c38_gravity_replay <seed> [main|ground]
//     main   (default): scripted scenarios (exclude / zero magnitude / re-include, setGravityVector(0),
//                       default magnitude 0, default exclusions, z and d changes) + random sequences;
//                       never touches Ground's exclusion flag
//     ground          : setBodyIsExcluded(state, Ground, false/true) ("the call will be ignored")
// Prints MISMATCH lines and a final "REPRODUCED: ..." when something mismatches, else "NOT-REPRODUCED".
#include "Simbody.h"
#include <cstdio>
#include <cstring>
#include <cmath>
#include <string>
#include <vector>
#include <random>
using namespace SimTK;

static int nMismatch = 0;
static std::string firstMismatch;
static void noteMismatch(const std::string& tag, const std::string& where, const std::string& what) {
  ++nMismatch;
  std::string line = "MISMATCH [" + tag + "] " + where + ": " + what;
  if (nMismatch <= 12) printf("%s\n", line.c_str());
  if (firstMismatch.empty()) firstMismatch = line;
}
static std::string str(const SpatialVec& v) {
  char b[256]; snprintf(b, sizeof b, "[(%.6g,%.6g,%.6g),(%.6g,%.6g,%.6g)]", v[0][0], v[0][1], v[0][2], v[1][0], v[1][1], v[1][2]); return b;
}
static bool closeR(Real a, Real b) { if (std::isnan(a) || std::isnan(b)) return false; return std::abs(a - b) <= 1e-11 * (1 + std::abs(a) + std::abs(b)); }
static bool closeSV(const SpatialVec& a, const SpatialVec& b) {
  for (int i = 0; i < 2; ++i) for (int j = 0; j < 3; ++j) if (!closeR(a[i][j], b[i][j])) return false; return true;
}
static bool exactZero(const SpatialVec& a) { for (int i = 0; i < 2; ++i) for (int j = 0; j < 3; ++j) if (!(a[i][j] == 0)) return false; return true; }

// the driver's own record of the parameters (the "documented" semantics of the setters)
struct Model { Real g, z; UnitVec3 d; std::vector<bool> excl; };

struct World {
  MultibodySystem system; SimbodyMatterSubsystem matter; GeneralForceSubsystem forces;
  std::vector<MobilizedBody> bodies;
  Force::Gravity* grav = nullptr;
  World() : matter(system), forces(system) {
    Body::Rigid b1(MassProperties(2.0, Vec3(0.1, 0.2, 0.3), Inertia(1) + 2.0 * UnitInertia::pointMassAt(Vec3(0.1, 0.2, 0.3))));
    Body::Rigid b2(MassProperties(0.7, Vec3(-0.3, 0.05, 0.4), Inertia(1) + 0.7 * UnitInertia::pointMassAt(Vec3(-0.3, 0.05, 0.4))));
    Body::Rigid b3(MassProperties(5.5, Vec3(0, 0, 0), Inertia(2)));
    bodies.push_back(MobilizedBody::Free(matter.Ground(), Transform(Vec3(0.5, 0, 0)), b1, Transform()));
    bodies.push_back(MobilizedBody::Free(bodies[0], Transform(Vec3(1, 0.5, 0)), b2, Transform(Vec3(0, 0.1, 0))));
    bodies.push_back(MobilizedBody::Pin(matter.Ground(), Transform(Vec3(0, 2, 0)), b3, Transform(Vec3(0, 1, 0))));
  }
  ~World() { delete grav; }
  int nb() const { return matter.getNumBodies(); }
};

static void setPose(const World& w, State& s, unsigned seed) {
  std::mt19937 rng(seed); std::uniform_real_distribution<double> U(-1, 1);
  Vector q(s.getNQ());
  for (int i = 0; i < q.size(); ++i) q[i] = U(rng);
  s.updQ() = q;
  w.system.realize(s, Stage::Time);
  w.system.project(s, 1e-10);   // normalizes the quaternions
}

// documented values for the model parameters in this configuration
static void documented(const World& w, const State& s, const Model& m, Vector_<SpatialVec>& F, Real& pe) {
  const int nb = w.nb();
  F.resize(nb); F.setToZero(); pe = 0;
  if (m.g == 0) return;
  const Vec3 gravity = m.g * m.d; const Real off = m.g * m.z;
  for (MobilizedBodyIndex mbx(1); mbx < nb; ++mbx) {
    if (m.excl[mbx]) continue;
    const MobilizedBody& mobod = w.matter.getMobilizedBody(mbx);
    const MassProperties& mp = mobod.getBodyMassProperties(s);
    const Transform& X_GB = mobod.getBodyTransform(s);
    const Real mass = mp.getMass();
    const Vec3 p_CB_G = X_GB.R() * mp.getMassCenter();
    const Vec3 p_G_CB = X_GB.p() + p_CB_G;
    const Vec3 f = mass * gravity;
    F[mbx] = SpatialVec(p_CB_G % f, f);
    pe -= mass * (~gravity * p_G_CB + off);
  }
}

static void compare(const World& w, State& s, const Model& m, const std::string& tag, const std::string& where, bool throughSystem) {
  const Force::Gravity& G = *w.grav;
  w.system.realize(s, Stage::Position);
  Vector_<SpatialVec> want; Real wantPE;
  documented(w, s, m, want, wantPE);
  // getters
  if (!(G.getMagnitude(s) == m.g) && !(std::isnan(G.getMagnitude(s)) && std::isnan(m.g))) noteMismatch(tag, where, "getMagnitude " + std::to_string(G.getMagnitude(s)) + " != " + std::to_string(m.g));
  if (!(G.getZeroHeight(s) == m.z)) noteMismatch(tag, where, "getZeroHeight " + std::to_string(G.getZeroHeight(s)) + " != " + std::to_string(m.z));
  if (G.getDownDirection(s) != m.d) noteMismatch(tag, where, "getDownDirection differs from the value set");
  for (MobilizedBodyIndex i(0); i < w.nb(); ++i)
    if (G.getBodyIsExcluded(s, i) != (bool)m.excl[i]) noteMismatch(tag, where, "getBodyIsExcluded(" + std::to_string((int)i) + ") != value set");
  const long long ev0 = G.getNumEvaluations();
  const bool wasValid = G.isForceCacheValid(s);
  const Vector_<SpatialVec>& F = G.getBodyForces(s);
  const Real pe = G.getPotentialEnergy(s);
  const long long ev1 = G.getNumEvaluations();
  if (!G.isForceCacheValid(s)) noteMismatch(tag, where, "cache not valid after getBodyForces");
  if (ev1 - ev0 != ((!wasValid && m.g != 0) ? 1 : 0))
    noteMismatch(tag, where, "numEvaluations advanced by " + std::to_string(ev1 - ev0) + " (cache was " + (wasValid ? "valid" : "invalid") + ", g=" + std::to_string(m.g) + ")");
  for (MobilizedBodyIndex i(0); i < w.nb(); ++i) {
    const bool mustBeZero = (i == 0) || m.excl[i] || m.g == 0;
    const std::string t = (i == 0) ? "ground" : tag;
    if (mustBeZero ? !exactZero(F[i]) : !closeSV(F[i], want[i]))
      noteMismatch(t, where, "getBodyForces[" + std::to_string((int)i) + "] = " + str(F[i]) + ", documented " + str(want[i]) +
               (mustBeZero ? " (exactly zero: excluded, Ground, or g == 0)" : "") + (wasValid ? "  [cache was reported VALID: stale]" : ""));
  }
  if (m.g == 0 ? !(pe == 0) : !closeR(pe, wantPE))
    noteMismatch(tag, where, "getPotentialEnergy = " + std::to_string(pe) + ", documented " + std::to_string(wantPE) + (wasValid ? "  [cache was reported VALID: stale]" : ""));
  if (throughSystem) {
    w.system.realize(s, Stage::Dynamics);
    const Vector_<SpatialVec>& R = w.system.getRigidBodyForces(s, Stage::Dynamics);
    for (MobilizedBodyIndex i(0); i < w.nb(); ++i) {
      const std::string t = (i == 0) ? "ground" : tag;
      if (!closeSV(R[i], want[i])) noteMismatch(t, where, "System rigid body force[" + std::to_string((int)i) + "] = " + str(R[i]) + ", documented " + str(want[i]));
    }
    const Real spe = w.system.calcPotentialEnergy(s);
    if (!closeR(spe, wantPE)) noteMismatch(tag, where, "System potential energy " + std::to_string(spe) + ", documented " + std::to_string(wantPE));
  }
}

// a brand-new state that receives the final parameter values: must read the same forces as the state that went through the sequence
static void compareWithFresh(const World& w, const State& s, const Model& m, const std::string& tag, const std::string& where) {
  const Force::Gravity& G = *w.grav;
  State f = w.system.getDefaultState(); w.system.realizeModel(f);
  f.updQ() = s.getQ();
  G.setMagnitude(f, m.g); G.setDownDirection(f, m.d); G.setZeroHeight(f, m.z);
  for (MobilizedBodyIndex i(1); i < w.nb(); ++i) G.setBodyIsExcluded(f, i, m.excl[i]);
  w.system.realize(f, Stage::Position);
  w.system.realize(s, Stage::Position);
  const Vector_<SpatialVec>& A = G.getBodyForces(s); const Vector_<SpatialVec>& B = G.getBodyForces(f);
  for (MobilizedBodyIndex i(1); i < w.nb(); ++i) {
    bool same = true;
    for (int a = 0; a < 2; ++a) for (int b = 0; b < 3; ++b) if (!(A[i][a][b] == B[i][a][b])) same = false;
    if (!same) noteMismatch(tag, where, "getBodyForces[" + std::to_string((int)i) + "] = " + str(A[i]) + " but a fresh state with the same parameters gives " + str(B[i]));
  }
  const Real pa = G.getPotentialEnergy(s), pb = G.getPotentialEnergy(f);
  if (!(pa == pb)) noteMismatch(tag, where, "getPotentialEnergy = " + std::to_string(pa) + " but a fresh state with the same parameters gives " + std::to_string(pb));
}

static Model defaults(const World& w, Real g, const UnitVec3& d, Real z) {
  Model m; m.g = g; m.d = d; m.z = z; m.excl.assign(w.nb(), false); m.excl[0] = true; return m;
}

// ---------------------------------------------------------------- scripted scenarios
static void scripted(unsigned seed) {
  const UnitVec3 down(0, -1, 0);
  for (int evalBetween = 0; evalBetween < 2; ++evalBetween) {       // with and without making the cache valid between the steps
    const std::string ev = evalBetween ? " (cache evaluated between steps)" : " (no evaluation between steps)";
    {   // A: exclude j, magnitude 0, re-include j  ==> exactly zero, never NaN
      for (int j = 1; j <= 3; ++j) {
        World w; w.grav = new Force::Gravity(w.forces, w.matter, down, 9.8);
        State s = w.system.realizeTopology(); w.system.realizeModel(s); setPose(w, s, seed + j);
        Model m = defaults(w, 9.8, down, 0);
        const Force::Gravity& G = *w.grav; const MobilizedBodyIndex jx(j);
        compare(w, s, m, "A", "initial" + ev, true);
        G.setBodyIsExcluded(s, jx, true); m.excl[j] = true;  if (evalBetween) compare(w, s, m, "A", "after setBodyIsExcluded(" + std::to_string(j) + ",true)" + ev, false);
        G.setMagnitude(s, 0); m.g = 0;                       if (evalBetween) compare(w, s, m, "A", "after setMagnitude(0)" + ev, false);
        G.setBodyIsExcluded(s, jx, false); m.excl[j] = false;
        compare(w, s, m, "A:exclude,zero-magnitude,re-include", "body " + std::to_string(j) + " after setBodyIsExcluded(true); setMagnitude(0); setBodyIsExcluded(false)" + ev, true);
        G.setMagnitude(s, 3.5); m.g = 3.5;
        compare(w, s, m, "A", "then setMagnitude(3.5)" + ev, true);
        compareWithFresh(w, s, m, "A", "then setMagnitude(3.5)" + ev);
      }
    }
    {   // B: setGravityVector(0) then exclusions toggled, then a new vector
      World w; w.grav = new Force::Gravity(w.forces, w.matter, Vec3(0, -9.8, 0));
      State s = w.system.realizeTopology(); w.system.realizeModel(s); setPose(w, s, seed + 10);
      Model m = defaults(w, 9.8, down, 0); const Force::Gravity& G = *w.grav;
      compare(w, s, m, "B", "initial" + ev, true);
      G.setGravityVector(s, Vec3(0)); m.g = 0;               if (evalBetween) compare(w, s, m, "B", "after setGravityVector(0)" + ev, true);
      G.setBodyIsExcluded(s, MobilizedBodyIndex(2), true); m.excl[2] = true;
      G.setBodyIsExcluded(s, MobilizedBodyIndex(2), false); m.excl[2] = false;
      compare(w, s, m, "B:zero-vector,exclude,re-include", "after setGravityVector(0); exclude 2; include 2" + ev, true);
      G.setGravityVector(s, Vec3(3, 0, -4)); m.g = 5; m.d = UnitVec3(Vec3(3, 0, -4) / 5, true);
      compare(w, s, m, "B", "after setGravityVector((3,0,-4))" + ev, true);
      // same magnitude, new direction: only the direction differs
      G.setGravityVector(s, Vec3(0, 5, 0)); m.g = 5; m.d = UnitVec3(Vec3(0, 5, 0) / 5, true);
      compare(w, s, m, "B:setGravityVector same magnitude, new direction", "after setGravityVector((0,5,0)) from (3,0,-4)" + ev, true);
      compareWithFresh(w, s, m, "B", "after setGravityVector((0,5,0))" + ev);
    }
    {   // C: default magnitude 0 with a default exclusion, then magnitude raised
      World w; w.grav = new Force::Gravity(w.forces, w.matter, down, 0.0);
      w.grav->setDefaultBodyIsExcluded(MobilizedBodyIndex(1), true);
      State s = w.system.realizeTopology(); w.system.realizeModel(s); setPose(w, s, seed + 20);
      Model m = defaults(w, 0, down, 0); m.excl[1] = true; const Force::Gravity& G = *w.grav;
      compare(w, s, m, "C:default magnitude 0", "initial" + ev, true);
      G.setBodyIsExcluded(s, MobilizedBodyIndex(1), false); m.excl[1] = false;     if (evalBetween) compare(w, s, m, "C", "include 1 at g==0" + ev, true);
      G.setBodyIsExcluded(s, MobilizedBodyIndex(3), true); m.excl[3] = true;
      G.setMagnitude(s, 2.0); m.g = 2.0;
      compare(w, s, m, "C", "after include 1; exclude 3; setMagnitude(2)" + ev, true);
      G.setBodyIsExcluded(s, MobilizedBodyIndex(3), false); m.excl[3] = false;
      compare(w, s, m, "C", "after include 3" + ev, true);
      compareWithFresh(w, s, m, "C", "after include 3" + ev);
    }
    {   // D: default magnitude != 0 with default exclusions (precalculated zeroes of realizeTopology)
      World w; w.grav = new Force::Gravity(w.forces, w.matter, down, 9.8);
      w.grav->setDefaultBodyIsExcluded(MobilizedBodyIndex(2), true);
      State s = w.system.realizeTopology(); w.system.realizeModel(s); setPose(w, s, seed + 30);
      Model m = defaults(w, 9.8, down, 0); m.excl[2] = true; const Force::Gravity& G = *w.grav;
      compare(w, s, m, "D:default exclusion", "initial" + ev, true);
      G.setBodyIsExcluded(s, MobilizedBodyIndex(1), true); m.excl[1] = true;
      compare(w, s, m, "D:setBodyIsExcluded(true) on a valid cache", "after exclude 1" + ev, true);
      G.setBodyIsExcluded(s, MobilizedBodyIndex(2), false); m.excl[2] = false;
      compare(w, s, m, "D", "after include 2" + ev, true);
    }
    {   // E: zero height and direction changes on a valid cache
      World w; w.grav = new Force::Gravity(w.forces, w.matter, down, 9.8);
      State s = w.system.realizeTopology(); w.system.realizeModel(s); setPose(w, s, seed + 40);
      Model m = defaults(w, 9.8, down, 0); const Force::Gravity& G = *w.grav;
      compare(w, s, m, "E", "initial" + ev, true);
      G.setZeroHeight(s, 1.25); m.z = 1.25;
      compare(w, s, m, "E:setZeroHeight on a valid cache", "after setZeroHeight(1.25)" + ev, true);
      G.setDownDirection(s, UnitVec3(1, 0, 0)); m.d = UnitVec3(1, 0, 0);
      compare(w, s, m, "E:setDownDirection on a valid cache", "after setDownDirection(x)" + ev, true);
      G.setMagnitude(s, 1.5); m.g = 1.5;
      compare(w, s, m, "E:setMagnitude on a valid cache", "after setMagnitude(1.5)" + ev, true);
      G.setMagnitude(s, 1.5); G.setZeroHeight(s, 1.25); G.setDownDirection(s, UnitVec3(1, 0, 0));   // unchanged values
      if (!G.isForceCacheValid(s)) noteMismatch("E", "unchanged values" + ev, "setters with unchanged values invalidated the cache");
      compare(w, s, m, "E", "after setters with unchanged values" + ev, true);
      compareWithFresh(w, s, m, "E", "end" + ev);
    }
  }
}

// ---------------------------------------------------------------- random sequences
static void randomSequences(unsigned seed, int nseq, int nsteps) {
  std::mt19937 rng(seed * 7919u + 17u);
  std::uniform_real_distribution<double> U(-1, 1);
  for (int q = 0; q < nseq; ++q) {
    const Real g0 = (rng() % 3 == 0) ? 0.0 : 9.8;
    const UnitVec3 d0(0, -1, 0);
    World w; w.grav = new Force::Gravity(w.forces, w.matter, d0, g0);
    Model m = defaults(w, g0, d0, 0);
    for (int j = 1; j <= 3; ++j) if (rng() % 4 == 0) { w.grav->setDefaultBodyIsExcluded(MobilizedBodyIndex(j), true); m.excl[j] = true; }
    State s = w.system.realizeTopology(); w.system.realizeModel(s); setPose(w, s, seed + 100 + q);
    const Force::Gravity& G = *w.grav;
    std::string hist = "seq " + std::to_string(q) + " (default g=" + std::to_string(g0) + "):";
    if (rng() % 2) compare(w, s, m, "random", hist + " initial", false);
    for (int k = 0; k < nsteps; ++k) {
      char b[160];
      switch (rng() % 6) {
        case 0: { Real g = (rng() % 3 == 0) ? 0.0 : 1 + std::abs(U(rng)) * 10; G.setMagnitude(s, g); m.g = g; snprintf(b, sizeof b, " setMagnitude(%g)", g); break; }
        case 1: { Real z = (rng() % 3 == 0) ? m.z : U(rng) * 3; G.setZeroHeight(s, z); m.z = z; snprintf(b, sizeof b, " setZeroHeight(%g)", z); break; }
        case 2: { UnitVec3 d(Vec3(U(rng), U(rng), U(rng) + 1.5)); G.setDownDirection(s, d); m.d = d; snprintf(b, sizeof b, " setDownDirection(%g,%g,%g)", d[0], d[1], d[2]); break; }
        case 3: { Vec3 v = (rng() % 3 == 0) ? Vec3(0) : Vec3(U(rng), U(rng), U(rng)) * 7.0; G.setGravityVector(s, v);
                  const Real n = v.norm(); m.g = n; if (n > 0) m.d = UnitVec3(v / n, true); snprintf(b, sizeof b, " setGravityVector(%g,%g,%g)", v[0], v[1], v[2]); break; }
        default: { int j = 1 + rng() % 3; bool ex = rng() % 2; G.setBodyIsExcluded(s, MobilizedBodyIndex(j), ex); m.excl[j] = ex; snprintf(b, sizeof b, " setBodyIsExcluded(%d,%d)", j, (int)ex); break; }
      }
      hist += b;
      if (rng() % 2) { compare(w, s, m, "random", hist, rng() % 2 == 0); hist += " [eval]"; }
      if (nMismatch > 40) return;
    }
    compare(w, s, m, "random", hist + " [end]", true);
    compareWithFresh(w, s, m, "random", hist + " [end]");
  }
}

// ---------------------------------------------------------------- Ground
static void ground(unsigned seed) {
  const UnitVec3 down(0, -1, 0);
  for (int ex = 0; ex < 2; ++ex) {
    World w; w.grav = new Force::Gravity(w.forces, w.matter, down, 9.8);
    State s = w.system.realizeTopology(); w.system.realizeModel(s); setPose(w, s, seed + 50);
    Model m = defaults(w, 9.8, down, 0); const Force::Gravity& G = *w.grav;
    compare(w, s, m, "ground", "initial", true);
    G.setBodyIsExcluded(s, MobilizedBodyIndex(0), ex != 0);       // documented: "you can call this method on Ground but the call will be ignored"
    compare(w, s, m, "ground", std::string("after setBodyIsExcluded(state, Ground, ") + (ex ? "true" : "false") + ") with g=9.8 on a valid cache", true);
  }
}

int main(int argc, char** argv) {
  unsigned seed = argc > 1 ? (unsigned)atoi(argv[1]) : 0;
  const char* mode = argc > 2 ? argv[2] : "main";
  try {
    if (!strcmp(mode, "ground")) ground(seed);
    else { scripted(seed); randomSequences(seed, 150, 10); }
  } catch (const std::exception& e) {
    printf("exception: %s\n", e.what());
    noteMismatch("exception", "driver", e.what());
  }
  if (nMismatch) printf("REPRODUCED: %d mismatches between the real Force::Gravity and the documented values; first: %s\n", nMismatch, firstMismatch.c_str());
  else printf("NOT-REPRODUCED\n");
  return nMismatch ? 1 : 0;
}
