// Native replay / witness driver for C02 and C01 (per-node dynamics kernels).
// Small random trees (1-4 bodies, chains and branches, mixed Pin/Slider/Universal/Cylinder/Ball/Free/... mobilizers, random valid mass
// properties, random mobilizer frames, random q,u and applied mobility/body forces) through the PUBLIC API of SimbodyMatterSubsystem.
// The dynamics passes (RigidBodyNodeSpec.cpp, RigidBodyNode.cpp, RigidBodyNode_Weld.cpp, RigidBodyNode_LoneParticle.cpp, RigidBodyNodeSpec_Derived.cpp,
// SimbodyMatterSubsystemRep.cpp) are compiled from the CURRENT tree into this executable (VERIF_REPO honoured).
// After the ntrees ordinary trees (unchanged random stream) ntrees/4 (at least 4) "lone particle" trees follow: first body a Ball or Free on Ground (so that
// every later mobilizer has qIndex != uIndex), 0-2 further random bodies, then a Translation mobilizer directly on Ground with identity frames and no children
// (this gets the special node RBNodeLoneParticle), and in every other such tree one more Pin after it (so the particle's slots are not the last ones).
// Checks (relative tolerance 1e-7 on quantities of size O(1..100)):
//   [FDID]  residual(calcAccelerationIgnoringConstraints(f,F)) == 0
//   [IDFD]  calcAccelerationIgnoringConstraints(f + residual(udot*), F) == udot*
//   [REAL]  realize(Acceleration)/calcAcceleration (no constraints) gives the same udot
//   [EOM]   residual(f,F,udot) == M udot + C - f - ~J F        (multiplyByM, multiplyBySystemJacobianTranspose)
//   [MMI]   multiplyByM(multiplyByMInv(v)) == v, multiplyByMInv(multiplyByM(v)) == v
//   [CALCM] calcM columns == multiplyByM(e_k), calcMInv columns == multiplyByMInv(e_k), M*MInv == 1, M symmetric, M positive definite (LDL' pivots > 0)
//   [KE]    calcKineticEnergy == 1/2 u'Mu
//   [POWER] d/dt KE along the forward-dynamics solution (central finite difference over q + h qdot, u + h udot) == f.u + sum_k F_k.V_k
//           (independent of the inverse-dynamics code: catches errors that forward and inverse dynamics share, e.g. a wrong bias term)
//   [ACC]   A_GB of forward dynamics == central finite difference of V_GB along (qdot, udot)
//   [QDOT]  qdot of realize(Velocity) == multiplyByN(u); qdotdot of calcQDotDot(udot) == N udot + NDot u for the lone-particle trees (N = 1 there: slots by qIndex/uIndex)
// usage: c02_replay [seed=N] [ntrees=K] [checks=FDID,IDFD,...|all]
// prints one "MISMATCH ..." line per failed comparison and finally "REPRODUCED: <n> mismatches ..." or "NOT-REPRODUCED".
#include "Simbody.h"
#include <cstdio>
#include <cstdlib>
#include <cstring>
#include <string>
#include <vector>
#include <cmath>
using namespace SimTK;

static unsigned long long rs = 88172645463325252ULL;
static double rnd() { rs ^= rs << 13; rs ^= rs >> 7; rs ^= rs << 17; return (double)(rs % 2000001ULL) / 1000000.0 - 1.0; }   // [-1,1]
static Vec3 rv(Real s = 1) { return Vec3(s*rnd(), s*rnd(), s*rnd()); }
static Rotation rrot() { return Rotation(BodyRotationSequence, 1.3*rnd(), XAxis, 1.1*rnd(), YAxis, 1.7*rnd(), ZAxis); }
static Transform rxf() { return Transform(rrot(), rv(0.7)); }

static std::string CHECKS = "all";
static bool want(const char* c) { return CHECKS == "all" || CHECKS.find(c) != std::string::npos; }
static int nmis = 0;
static void mismatch(const char* chk, int tree, const std::string& desc, Real got, Real want_, Real tol) {
    ++nmis;
    if (nmis <= 40)
        std::printf("MISMATCH [%s] tree %d (%s): got %.12g expected %.12g (|diff| %.3g > tol %.3g)\n", chk, tree, desc.c_str(), got, want_, std::abs(got-want_), tol);
}
static void cmp(const char* chk, int tree, const std::string& desc, const Vector& a, const Vector& b, Real rel = 1e-7) {
    Real scale = 1;
    for (int i = 0; i < a.size(); ++i) scale = std::max(scale, std::max(std::abs(a[i]), std::abs(b[i])));
    for (int i = 0; i < a.size(); ++i)
        if (!(std::abs(a[i]-b[i]) <= rel*scale)) { mismatch(chk, tree, desc + " [" + std::to_string(i) + "]", a[i], b[i], rel*scale); return; }
}
static void cmp1(const char* chk, int tree, const std::string& desc, Real a, Real b, Real rel = 1e-7, Real scale0 = 1) {
    Real scale = std::max(scale0, std::max(std::abs(a), std::abs(b)));
    if (!(std::abs(a-b) <= rel*scale)) mismatch(chk, tree, desc, a, b, rel*scale);
}

static const char* KINDS[] = {"Pin","Slider","Universal","Cylinder","Ball","Free","Gimbal","Planar","Translation","Bushing","BendStretch","Screw"};

static MobilizedBody addBody(MobilizedBody& parent, const std::string& kind, std::string& descr) {
    // valid random mass properties: a brick with random half-lengths, mass centre away from the body origin, axes rotated
    Real m = 0.5 + 1.5*std::abs(rnd());
    Vec3 com = rv(0.4);
    UnitInertia G = UnitInertia::brick(0.1+0.3*std::abs(rnd()), 0.1+0.3*std::abs(rnd()), 0.1+0.3*std::abs(rnd()));
    G = G.reexpress(rrot()).shiftFromCentroid(com);
    Body::Rigid body(MassProperties(m, com, G));
    Transform X_PF = rxf(), X_BM = rxf();
    bool rev = rnd() > 0.5;
    MobilizedBody::Direction dir = rev ? MobilizedBody::Reverse : MobilizedBody::Forward;
    descr += kind + (rev ? "(rev) " : " ");
    if (kind=="Pin")         return MobilizedBody::Pin(parent, X_PF, body, X_BM, dir);
    if (kind=="Slider")      return MobilizedBody::Slider(parent, X_PF, body, X_BM, dir);
    if (kind=="Universal")   return MobilizedBody::Universal(parent, X_PF, body, X_BM, dir);
    if (kind=="Cylinder")    return MobilizedBody::Cylinder(parent, X_PF, body, X_BM, dir);
    if (kind=="Ball")        return MobilizedBody::Ball(parent, X_PF, body, X_BM, dir);
    if (kind=="Free")        return MobilizedBody::Free(parent, X_PF, body, X_BM, dir);
    if (kind=="Gimbal")      return MobilizedBody::Gimbal(parent, X_PF, body, X_BM, dir);
    if (kind=="Planar")      return MobilizedBody::Planar(parent, X_PF, body, X_BM, dir);
    if (kind=="Translation") return MobilizedBody::Translation(parent, X_PF, body, X_BM, dir);
    if (kind=="Bushing")     return MobilizedBody::Bushing(parent, X_PF, body, X_BM, dir);
    if (kind=="BendStretch") return MobilizedBody::BendStretch(parent, X_PF, body, X_BM, dir);
    return MobilizedBody::Screw(parent, X_PF, body, X_BM, 0.3, dir);
}

static MobilizedBody addLoneParticle(SimbodyMatterSubsystem& matter, std::string& descr) {
    Real m = 0.5 + 1.5*std::abs(rnd());
    Vec3 com = (rnd() > 0) ? rv(0.4) : Vec3(0);
    UnitInertia G = UnitInertia::brick(0.1+0.3*std::abs(rnd()), 0.1+0.3*std::abs(rnd()), 0.1+0.3*std::abs(rnd()));
    G = G.reexpress(rrot()).shiftFromCentroid(com);
    Body::Rigid body(MassProperties(m, com, G));
    descr += "LoneParticle(Translation on Ground, identity frames) ";
    return MobilizedBody::Translation(matter.Ground(), Transform(), body, Transform());
}

static void oneTree(int t, bool lone = false) {
    MultibodySystem system;
    SimbodyMatterSubsystem matter(system);
    GeneralForceSubsystem forces(system);
    int nbodies = 1 + (int)(std::abs(rnd())*3.999);
    std::vector<MobilizedBody> bodies;
    bodies.push_back(matter.Ground());
    std::string descr;
    for (int b = 0; b < nbodies; ++b) {
        int p = (int)(std::abs(rnd())*(bodies.size()-1e-9));
        if (rnd() > 0.3) p = (int)bodies.size()-1;                       // mostly chains, sometimes branches
        int k = (t < 12) ? ((t + b) % 6) : (int)(std::abs(rnd())*11.999);  // the first trees cycle through Pin/Slider/Universal/Cylinder/Ball/Free
        if (lone && b == 0) { p = 0; k = 4 + (t % 2); }                    // Ball / Free first: 4 (resp. 7) q-slots for 3 (resp. 6) u-slots
        bodies.push_back(addBody(bodies[p], KINDS[k], descr));
    }
    if (lone) {
        addLoneParticle(matter, descr);                                    // never a parent
        if ((t / 2) % 2) addBody(bodies.back(), "Pin", descr);
    }
    bool euler = (t % 2) == 1;
    State s = system.realizeTopology();
    matter.setUseEulerAngles(s, euler);
    system.realizeModel(s);
    const int nq = s.getNQ(), nu = s.getNU(), nb = matter.getNumBodies();
    for (int i = 0; i < nq; ++i) s.updQ()[i] = 0.9*rnd();
    if (!euler) { system.realize(s, Stage::Instance); Vector q = s.getQ();   // normalise quaternions
        for (MobilizedBodyIndex bx(1); bx < nb; ++bx) { const MobilizedBody& mb = matter.getMobilizedBody(bx);
            if (matter.isUsingQuaternion(s, bx)) { int q0 = mb.getFirstQIndex(s); Vec4 e(q[q0],q[q0+1],q[q0+2],q[q0+3]); if (e.norm() < 0.1) e = Vec4(1,0,0,0); e = e/e.norm();
                for (int i=0;i<4;++i) s.updQ()[q0+i] = e[i]; } } }
    for (int i = 0; i < nu; ++i) s.updU()[i] = 1.5*rnd();
    system.realize(s, Stage::Dynamics);
    Vector f(nu), ustar(nu), v(nu);
    Vector_<SpatialVec> F(nb);
    for (int i = 0; i < nu; ++i) { f[i] = 3*rnd(); ustar[i] = 2*rnd(); v[i] = 2*rnd(); }
    for (int b = 0; b < nb; ++b) F[b] = SpatialVec(rv(2), rv(2));
    char hdr[64]; std::snprintf(hdr, sizeof hdr, "%d bodies, %s", nbodies, euler ? "euler" : "quat");
    std::string D = std::string(hdr) + ": " + descr;

    Vector udot, res, res2, udot2;
    Vector_<SpatialVec> A_GB, A2;
    matter.calcAccelerationIgnoringConstraints(s, f, F, udot, A_GB);
    if (want("FDID")) {
        matter.calcResidualForceIgnoringConstraints(s, f, F, udot, res);
        cmp("FDID", t, D + "residual of forward-dynamics udot", res, Vector(nu, Real(0)), 1e-7);
    }
    if (want("IDFD")) {
        matter.calcResidualForceIgnoringConstraints(s, f, F, ustar, res2);
        Vector fp = f + res2;
        matter.calcAccelerationIgnoringConstraints(s, fp, F, udot2, A2);
        cmp("IDFD", t, D + "forward(f + inverse(udot*)) vs udot*", udot2, ustar, 1e-7);
    }
    if (want("REAL")) {
        Vector ud3; Vector_<SpatialVec> A3;
        system.realize(s, Stage::Dynamics);
        matter.calcAcceleration(s, f, F, ud3, A3);
        cmp("REAL", t, D + "calcAcceleration vs calcAccelerationIgnoringConstraints", ud3, udot, 1e-9);
    }
    Vector Mu, JtF, C, zero(nu, Real(0));
    Vector_<SpatialVec> zeroF(nb, SpatialVec(Vec3(0), Vec3(0)));
    if (want("EOM")) {
        matter.multiplyByM(s, ustar, Mu);
        matter.multiplyBySystemJacobianTranspose(s, F, JtF);
        matter.calcResidualForceIgnoringConstraints(s, zero, zeroF, zero, C);
        matter.calcResidualForceIgnoringConstraints(s, f, F, ustar, res2);
        Vector rhs = Mu + C - f - JtF;
        cmp("EOM", t, D + "residual(f,F,udot) vs M udot + C - f - ~J F", res2, rhs, 1e-8);
    }
    if (want("MMI")) {
        Vector a, b;
        matter.multiplyByMInv(s, v, a); matter.multiplyByM(s, a, b);
        cmp("MMI", t, D + "M*(MInv*v) vs v", b, v, 1e-7);
        matter.multiplyByM(s, v, a); matter.multiplyByMInv(s, a, b);
        cmp("MMI", t, D + "MInv*(M*v) vs v", b, v, 1e-7);
    }
    Matrix Mm, Mi;
    if (want("CALCM") || want("KE")) { matter.calcM(s, Mm); matter.calcMInv(s, Mi); }
    if (want("CALCM")) {
        for (int k = 0; k < nu; ++k) {
            Vector e(nu, Real(0)), col; e[k] = 1;
            matter.multiplyByM(s, e, col);
            cmp("CALCM", t, D + "calcM column " + std::to_string(k) + " vs multiplyByM(e_k)", Vector(Mm(k)), col, 1e-10);
            matter.multiplyByMInv(s, e, col);
            cmp("CALCM", t, D + "calcMInv column " + std::to_string(k) + " vs multiplyByMInv(e_k)", Vector(Mi(k)), col, 1e-10);
        }
        Matrix I = Mm*Mi;
        for (int i = 0; i < nu; ++i) for (int j = 0; j < nu; ++j) {
            cmp1("CALCM", t, D + "(M*MInv)(" + std::to_string(i) + "," + std::to_string(j) + ")", I(i,j), i==j ? 1 : 0, 1e-7);
            if (j > i) cmp1("CALCM", t, D + "M symmetric (" + std::to_string(i) + "," + std::to_string(j) + ")", Mm(i,j), Mm(j,i), 1e-9);
        }
        // positive definite: LDL' without pivoting must have positive pivots
        Matrix L = Mm; bool pd = true; Real worst = 0;
        for (int k = 0; k < nu && pd; ++k) {
            if (!(L(k,k) > 1e-12)) { pd = false; worst = L(k,k); break; }
            for (int i = k+1; i < nu; ++i) { Real m_ = L(i,k)/L(k,k); for (int j = k; j < nu; ++j) L(i,j) -= m_*L(k,j); }
        }
        if (!pd) mismatch("CALCM", t, D + "M positive definite: LDL' pivot", worst, 1, 0);
    }
    if (want("KE")) {
        Vector Mu2; matter.multiplyByM(s, s.getU(), Mu2);
        cmp1("KE", t, D + "calcKineticEnergy vs u'Mu/2", matter.calcKineticEnergy(s), 0.5*(~s.getU()*Mu2), 1e-9);
    }
    if (want("QDOT")) {
        Vector Nu;
        matter.multiplyByN(s, false, s.getU(), Nu);
        cmp("QDOT", t, D + "qdot of realize(Velocity) vs multiplyByN(u)", s.getQDot(), Nu, 1e-9);
    }
    if (want("POWER") || want("ACC")) {
        // central finite difference along the forward-dynamics solution
        Vector qdot = s.getQDot();
        const Real h = 1e-5;
        State sp = s, sm = s;
        sp.updQ() = s.getQ() + h*qdot; sp.updU() = s.getU() + h*udot;
        sm.updQ() = s.getQ() - h*qdot; sm.updU() = s.getU() - h*udot;
        system.realize(sp, Stage::Velocity); system.realize(sm, Stage::Velocity);
        if (want("POWER")) {
            Real dke = (matter.calcKineticEnergy(sp) - matter.calcKineticEnergy(sm))/(2*h);
            Real pw = ~f*s.getU();
            for (MobilizedBodyIndex bx(1); bx < nb; ++bx) { const SpatialVec& V = matter.getMobilizedBody(bx).getBodyVelocity(s); pw += ~F[bx][0]*V[0] + ~F[bx][1]*V[1]; }
            cmp1("POWER", t, D + "d/dt KE along forward dynamics vs applied power", dke, pw, 2e-6, 10);
        }
        if (want("ACC")) {
            for (MobilizedBodyIndex bx(1); bx < nb; ++bx) {
                SpatialVec fd = (matter.getMobilizedBody(bx).getBodyVelocity(sp) - matter.getMobilizedBody(bx).getBodyVelocity(sm))/(2*h);
                Vector a(6), b(6);
                for (int i = 0; i < 3; ++i) { a[i] = A_GB[bx][0][i]; a[3+i] = A_GB[bx][1][i]; b[i] = fd[0][i]; b[3+i] = fd[1][i]; }
                cmp("ACC", t, D + "A_GB of body " + std::to_string((int)bx) + " vs finite difference of V_GB", a, b, 2e-6);
            }
        }
    }
}

int main(int argc, char** argv) {
    int ntrees = 40;
    std::setvbuf(stdout, nullptr, _IOLBF, 0);          // a changed tree may corrupt memory: keep the MISMATCH lines printed before an abort
    for (int i = 1; i < argc; ++i) {
        if (!std::strncmp(argv[i], "seed=", 5)) { rs ^= (unsigned long long)std::atoll(argv[i]+5) * 2654435761ULL; if (!rs) rs = 1; }
        else if (!std::strncmp(argv[i], "ntrees=", 7)) ntrees = std::atoi(argv[i]+7);
        else if (!std::strncmp(argv[i], "checks=", 7)) CHECKS = argv[i]+7;
    }
    for (int w = 0; w < 5; ++w) rnd();
    const int nlone = std::max(4, ntrees/4);
    for (int t = 0; t < ntrees + nlone; ++t) {
        try { oneTree(t, t >= ntrees); }
        catch (const std::exception& e) { ++nmis; std::printf("MISMATCH [EXC] tree %d: exception %s\n", t, e.what()); }
    }
    if (nmis) std::printf("REPRODUCED: %d mismatches over %d random trees + %d lone-particle trees (checks=%s)\n", nmis, ntrees, nlone, CHECKS.c_str());
    else std::printf("NOT-REPRODUCED (%d random trees + %d lone-particle trees, checks=%s)\n", ntrees, nlone, CHECKS.c_str());
    return 0;
}
