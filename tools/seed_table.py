"""Prints the markdown table of DESIGN.md 9.4 from seeded/*/meta.json (+ notes.txt) and rewrites the block between the SEEDTABLE markers."""
import json, os, glob, re, sys
V = os.path.dirname(os.path.dirname(os.path.abspath(__file__)))
rows = ["| seed | change (files) | needs | confirmed | caught by (first failed obligation) | native | history |", "|---|---|---|---|---|---|---|"]
def short(s, n):
    s = re.sub(r"\s+", " ", str(s or "")).replace("|", "/")
    return s if len(s) <= n else s[:n - 1] + "…"
for d in sorted(glob.glob(os.path.join(V, "seeded", "*"))):
    mp = os.path.join(d, "meta.json")
    if not os.path.exists(mp): continue
    m = json.load(open(mp))
    det = m.get("detection", {})
    by = det.get("detected_by") or []
    first = ""; native = "–"
    for r in det.get("runs", []):
        if r.get("exit_code") == 1:
            first = (r.get("first_failed_obligations") or [""])[0].replace("failed-obligation: ", "")
            native = "yes" if r.get("reproduced_on_real_code") else "no"
            break
    undec = [r["check"] for r in det.get("runs", []) if r.get("exit_code") == 2]
    caught = ("%s `%s`" % ("+".join(by), short(first.split(" (")[0], 110))) if by else ("**not caught**" + (" (exit 2 UNDECIDED in %s)" % ",".join(undec) if undec else ""))
    notes = open(os.path.join(d, "notes.txt")).read().strip() if os.path.exists(os.path.join(d, "notes.txt")) else ""
    files = ", ".join(os.path.basename(f) for f in (m.get("files_changed") or []))
    rows.append("| %s | %s (%s) | %s | %s | %s | %s | %s |" % (os.path.basename(d), short(m.get("summary"), 150), files, short(m.get("needs"), 150),
                "yes" if m.get("confirmed_in_scratch_worktree", {}).get("confirmed") else "no", caught, native, notes))
table = "\n".join(rows)
p = os.path.join(V, "DESIGN.md")
s = open(p).read()
if "<!-- SEEDTABLE BEGIN -->" in s:
    s = re.sub(r"<!-- SEEDTABLE BEGIN -->.*?<!-- SEEDTABLE END -->", lambda _: "<!-- SEEDTABLE BEGIN -->\n" + table + "\n<!-- SEEDTABLE END -->", s, flags=re.S)
    open(p, "w").write(s)
print(table[:3000])
