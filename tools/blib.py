"""Back end B driver helpers: extract -> transliterate -> exec namespace -> obligations."""
import os, re, time, z3
import symlib as S
from symlib import *
from extract import cut_function, ExtractionError, strip_comments
from translit import to_python, params_of
from vlib import Obligation, REPO, VERIF


def _lift(x):
    """raw z3 arithmetic terms entering transliterated code become dual numbers (see symlib.D)"""
    if z3.is_expr(x) and z3.is_arith(x):
        return S.D(x)
    return x


class Thrown(Exception):
    """the transliterated code executed a SimTK_THROW (ghost 'threw' flag of DESIGN 2.2)"""
    pass


class BUnit:
    """A namespace of transliterated real functions + obligation recording for one property."""
    def __init__(self, ctx):
        self.ctx = ctx
        self.ns = {}
        self.overloads = {}
        self.sources = {}
        self.install_shim()

    def install_shim(self):
        ns = self.ns
        for k in ("Q", "D", "Vec", "Row", "Mat", "cos", "sin", "sqrt", "square", "cube", "dot", "cross", "crossMat", "eye", "val", "der", "sign", "clamp", "atan2_"):
            ns[k] = getattr(S, k)
        def vec_ctor(n):
            def f(*a):
                if len(a) == 0:
                    return Vec([0] * n)      # uninitialised in C++; never read before written in accepted code
                if len(a) == 1 and isinstance(a[0], Vec):
                    return Vec(list(a[0].e))
                if len(a) == 1 and S.is_scalar(a[0]):
                    return Vec([a[0]] * n)
                assert len(a) == n, "Vec%d constructor with %d args" % (n, len(a))
                return Vec(*a)
            return f
        def row_ctor(n):
            def f(*a):
                if len(a) == 1 and S.is_scalar(a[0]):
                    return Row([a[0]] * n)
                assert len(a) == n
                return Row(list(a))
            return f
        def mat_ctor(nr, nc):
            def f(*a):
                if len(a) == 0:
                    return Mat([[0] * nc for _ in range(nr)])
                if len(a) == 1 and isinstance(a[0], Mat):
                    return Mat(a[0].m)
                if len(a) == 1 and S.is_scalar(a[0]):   # SimTK: scalar -> diagonal
                    return Mat([[a[0] if i == j else 0 for j in range(nc)] for i in range(nr)])
                if len(a) == nr and all(isinstance(x, Row) for x in a):
                    return Mat([list(x.e) for x in a])
                if len(a) == nc and all(isinstance(x, Vec) and not isinstance(x, Row) for x in a):
                    return ~Mat([list(x.e) for x in a])
                return Mat.from_list(nr, nc, a)
            return f
        for n in (2, 3, 4, 5, 6):
            for suf in ("", "P"):
                ns["Vec%d%s" % (n, suf)] = vec_ctor(n)
                ns["Row%d%s" % (n, suf)] = row_ctor(n)
            ns["Vec_%d" % n] = ns["Vec_%d_P" % n] = vec_ctor(n)
            ns["Row_%d" % n] = ns["Row_%d_P" % n] = row_ctor(n)
            for m in (2, 3, 4, 5, 6):
                for suf in ("", "P"):
                    ns["Mat%d%d%s" % (n, m, suf)] = mat_ctor(n, m)
                ns["Mat_%d_%d" % (n, m)] = ns["Mat_%d_%d_P" % (n, m)] = mat_ctor(n, m)
        ns["ITE"] = S.ITE
        def AND(*a):
            if all(isinstance(x, bool) for x in a):
                return all(a)
            return z3.And(*[z3.BoolVal(x) if isinstance(x, bool) else x for x in a])
        def OR(*a):
            if all(isinstance(x, bool) for x in a):
                return any(a)
            return z3.Or(*[z3.BoolVal(x) if isinstance(x, bool) else x for x in a])
        ns["AND"], ns["OR"] = AND, OR
        lift = lambda x: x if isinstance(x, D) else D.lift(x)
        ns["max_"] = lambda a, b: S.ITE(val(lift(a)) >= val(lift(b)), lift(a), lift(b))       # std::max / std::min / std::abs on reals as if-then-else terms
        ns["min_"] = lambda a, b: S.ITE(val(lift(a)) <= val(lift(b)), lift(a), lift(b))
        ns["abs_"] = lambda a: S.ITE(val(lift(a)) >= 0, lift(a), -lift(a))
        ns["NOT"] = lambda c: (not c) if isinstance(c, (bool, int)) else z3.Not(c)     # for `!(symbolic condition)`: Python's `not` cannot negate a term
        self.precond_violations = []
        def ASSERT(c, text):
            """a kept assert of the real code = precondition obligation of that function at this call"""
            if isinstance(c, bool):
                if not c:
                    self.precond_violations.append(text)
                return
            self.precond_violations.append(("symbolic", c, text))
        ns["ASSERT"] = ASSERT
        ns["Thrown"] = Thrown
        self.branch_script = []
        self.branch_pos = 0
        self.path = []
        def BR(c):
            if isinstance(c, (bool, int)):
                return bool(c)
            # symbolic branch: follow the scripted decision, record the path condition
            i = self.branch_pos
            self.branch_pos += 1
            take = self.branch_script[i] if i < len(self.branch_script) else True
            self.path.append(c if take else z3.Not(c))
            return take
        ns["BR"] = BR

    def run_paths(self, fn, nbranches):
        """call fn() once per decision vector over nbranches symbolic branches; yields (path_conditions, result)"""
        import itertools
        for script in itertools.product([True, False], repeat=nbranches):
            self.branch_script, self.branch_pos, self.path = list(script), 0, []
            r = fn()
            yield list(self.path), script, r

    def add_function(self, path, anchor, pyname=None, occurrence=1, self_param=False, pre=None, display=None, cxxname=None, keep_asserts=False):
        c = cut_function(path, anchor, display or pyname, occurrence=occurrence)
        names = params_of(strip_comments(c.header))
        base = pyname or re.search(r"(\w+)\s*\($", strip_comments(c.header)[:strip_comments(c.header).index("(") + 1]).group(1)
        arity = len(names) + (1 if self_param else 0)
        full = "%s__%d" % (base, arity)
        src, log, dropped = to_python(c, full, self_param=self_param, pre=pre, keep_asserts=keep_asserts)
        self.sources[full] = src
        try:
            exec(compile(src, "<translit:%s>" % full, "exec"), self.ns)
        except SyntaxError as e:
            raise ExtractionError("transliteration of %s is not valid Python: %s\n%s" % (full, e, src))
        self.overloads.setdefault(base, {})[arity] = self.ns[full]
        ov = self.overloads[base]
        def dispatch(*a, _ov=ov, _b=base):
            a = tuple(_lift(x) for x in a)
            if len(a) not in _ov:
                raise ExtractionError("no transliterated overload of %s with %d args" % (_b, len(a)))
            return _ov[len(a)](*a)
        self.ns[base] = dispatch
        self.ctx.add_function(path, display or (cxxname or base) + "/%d" % arity, c.start, c.end, c.text,
                              "M3 (transliteration to symbolic Python; rules logged)", dropped, log)
        return self.ns[full]

    def add_method(self, cls, path, anchor, name, members=(), methods=(), occurrence=1, extra_pre=None, cxxname=None, keep_asserts=False):
        """transliterate a member function and attach it to python class `cls` (overloads by arity).
        implicit-this rule: listed data members -> self.X, listed sibling methods f( -> self.f("""
        def pre(body):
            if extra_pre:
                body = extra_pre(body)
            for m in members:
                body = re.sub(r"(?<![\w.>])" + re.escape(m) + r"\b", "self." + m, body)
            for f in methods:
                body = re.sub(r"(?<![\w.>:])" + re.escape(f) + r"\s*\(", "self." + f + "(", body)
            return body
        c = cut_function(path, anchor, name, occurrence=occurrence)
        names = params_of(strip_comments(c.header))
        arity = len(names) + 1
        full = "%s__%s__%d" % (cls.__name__, name, arity)
        src, log, dropped = to_python(c, full, self_param=True, pre=pre, keep_asserts=keep_asserts)
        log = log + [dict(rule="implicit-this (members: %s; methods: %s)" % (",".join(members), ",".join(methods)), hits=1, examples=[])]
        self.sources[full] = src
        try:
            exec(compile(src, "<translit:%s>" % full, "exec"), self.ns)
        except SyntaxError as e:
            raise ExtractionError("transliteration of %s is not valid Python: %s\n%s" % (full, e, src))
        key = (cls.__name__, name)
        ov = self.overloads.setdefault(key, {})
        ov[arity] = self.ns[full]
        def dispatch(self_, *a, _ov=ov, _n=name):
            a = tuple(_lift(x) for x in a)
            if len(a) + 1 not in _ov:
                raise ExtractionError("no transliterated overload of %s with %d args" % (_n, len(a)))
            return _ov[len(a) + 1](self_, *a)
        setattr(cls, name, dispatch)
        self.ctx.add_function(path, (cxxname or cls.__name__ + "::" + name) + "/%d" % (arity - 1), c.start, c.end, c.text,
                              "M3 (transliteration to symbolic Python; rules logged)", dropped, log)

    def dump_sources(self):
        p = os.path.join(self.ctx.out, "transliterated.py")
        open(p, "w").write("\n".join(self.sources[k] for k in sorted(self.sources)))
        return p

    # ---- obligations ----
    def prove_eq(self, name, lhs, rhs, side, unit, function=None, timeout_ms=20000, extra_path=(), minimal=False):
        """one obligation per element: lhs[i] == rhs[i] under side conditions"""
        second = self.ctx.tier == "thorough" and len(self.ctx.obligations) < 600     # cvc5 re-check of the first 600 obligations
        out = []
        if not minimal:
            side = self._with_env(side)
        for i, g in S.eq_all(lhs, rhs):
            nm = "%s[%d]" % (name, i)
            r = S.prove(g, side=list(side) + list(extra_path), timeout_ms=timeout_ms, name=nm,
                        outdir=os.path.join(self.ctx.out, "smt2"), second_opinion=second)
            self.record(nm, unit, r, function, "identity %s" % name)
            out.append(r)
        return out

    def _with_env(self, side):
        """the side conditions introduced by the shim so far (c^2+s^2=1, sqrt definitions) always
        belong to the hypotheses, otherwise a counter-model may violate the meaning of sqrt/cos/sin"""
        side = list(side)
        have = set(c.get_id() for c in side)
        return side + [c for c in S.ENV.side if c.get_id() not in have]

    def prove_bool(self, name, goal, side, unit, function=None, timeout_ms=20000, minimal=False):
        """minimal=True: use exactly the given hypotheses (a goal proved from fewer hypotheses is still proved)"""
        if not minimal:
            side = self._with_env(side)
        r = S.prove(goal, side=list(side), timeout_ms=timeout_ms, name=name,
                    outdir=os.path.join(self.ctx.out, "smt2"), second_opinion=self.ctx.tier == "thorough" and len(self.ctx.obligations) < 600)
        self.record(name, unit, r, function, "lemma %s" % name)
        return r

    def guard_sat(self, name, hyps, unit, timeout_ms=10000):
        """vacuity guard for a hand-picked (minimal) hypothesis set: it must be satisfiable, else everything follows from it"""
        import time as _t
        s_ = z3.Solver(); s_.set("timeout", int(timeout_ms * S.timeout_scale())); s_.add(*hyps)
        t0 = _t.time(); r = s_.check()
        st = "discharged" if r == z3.sat else ("failed" if r == z3.unsat else "undecided")
        from vlib import Obligation
        self.ctx.add(Obligation("guard:%s hypotheses satisfiable" % name, unit, "z3", st, _t.time() - t0,
                                "reachability guard" if r == z3.sat else "hypothesis set is %s" % r))
        return r == z3.sat

    def record(self, nm, unit, r, function, what):
        used = self.__dict__.setdefault("_names", {})
        k = used.get((unit, nm), 0)
        used[(unit, nm)] = k + 1
        if k:
            nm = "%s#%d" % (nm, k + 1)          # same clause on another path
        detail = what
        cex = None
        if r.status == "failed":
            detail = "sat (counter-model found): " + what
            cex = r.model
        elif r.status == "undecided":
            detail = "solver answered unknown/timeout (%s): %s" % (r.reason, what)
        if os.environ.get("VERIF_TRACE"):
            print("  [trace] %s %s %.1fs %s:%s" % (r.status, r.backend, r.seconds, unit, nm[:110]), flush=True)
        self.ctx.add(Obligation(unit + ":" + nm, unit, r.backend, r.status, r.seconds, detail, function=function, cex=cex))
