"""Back end B shim: textbook meaning of SimTK small-matrix types over z3 real terms,
dual numbers for time derivatives, side-condition bookkeeping (c^2+s^2=1, sqrt),
and the obligation discharger (z3; cvc5 as second opinion).

ASSUMPTION reported by every check that uses this: machine arithmetic is treated
as mathematical (reals), and this shim's Vec/Mat operators are an assumed contract
on SimTK's SmallMatrix layer (cross-checked natively by the fidelity runs)."""
import z3, os, time, subprocess, re, itertools, fractions

# ----------------------------------------------------------------------
# scalars: python int/Fraction, z3 ArithRef, or D (dual number)
# ----------------------------------------------------------------------


def _raw(x):
    """python number / z3 term / (nested) D  ->  z3 real term (innermost value part)"""
    while isinstance(x, D):
        x = x.v
    return _num(x)


def _num(x):
    """python number -> z3 numeral; z3 terms and D pass through"""
    if isinstance(x, bool):
        raise TypeError("bool in arithmetic")
    if isinstance(x, (int, fractions.Fraction)):
        return z3.RealVal(str(x))
    if isinstance(x, float):
        raise TypeError("inexact float literal reached the symbolic shim: %r" % x)
    return x


def _add(x, y):
    if isinstance(x, D) or isinstance(y, D):
        x, y = D.lift(x), D.lift(y); return D(_add(x.v, y.v), _add(x.d, y.d))
    return _num(x) + _num(y)


def _sub(x, y):
    if isinstance(x, D) or isinstance(y, D):
        x, y = D.lift(x), D.lift(y); return D(_sub(x.v, y.v), _sub(x.d, y.d))
    return _num(x) - _num(y)


def _mul(x, y):
    if isinstance(x, D) or isinstance(y, D):
        x, y = D.lift(x), D.lift(y); return D(_mul(x.v, y.v), _add(_mul(x.d, y.v), _mul(x.v, y.d)))
    return _num(x) * _num(y)


def _recip(b):
    """reciprocal variable r with r*b == 1 (one per distinct denominator term); definition in ENV.defs"""
    k = ("recip", z3.simplify(b).sexpr())
    if k in _TRIG and _TRIG[k][1] is ENV:
        return _TRIG[k][0]
    r = ENV.new("recip")
    ENV.defs.append(("recip", r, r * b == 1))
    _TRIG[k] = (r, ENV)
    return r


def _div(x, y):
    if ENV.abstract_scalars and not isinstance(_num(y) if not isinstance(y, D) else y.v, D):
        yv = _raw(y)
        if not z3.is_rational_value(z3.simplify(yv)) and (not isinstance(x, D) or not isinstance(x.v, D)) and (not isinstance(y, D) or _is_zero(y.d)):
            return _mul(x, D(_recip(yv)))
    if isinstance(x, D) or isinstance(y, D):
        x, y = D.lift(x), D.lift(y)
        return D(_div(x.v, y.v), _div(_sub(_mul(x.d, y.v), _mul(x.v, y.d)), _mul(y.v, y.v)))
    return _num(x) / _num(y)


def _is_zero(t):
    return (not isinstance(t, D)) and z3.is_rational_value(z3.simplify(_num(t))) and z3.simplify(_num(t)).as_fraction() == 0


def _neg(x):
    if isinstance(x, D):
        return D(_neg(x.v), _neg(x.d))
    return -_num(x)


class D:
    """dual number value + eps*derivative (forward-mode differentiation). EVERY scalar
    handled by the shim is a D (derivative 0 for constants), so that z3's own operator
    overloads never see a D on their right-hand side. Components may themselves be D
    (nested duals) for higher derivatives."""
    __slots__ = ("v", "d")

    def __init__(self, v, d=0):
        self.v = _num(v)
        self.d = _num(d)

    @staticmethod
    def lift(x):
        return x if isinstance(x, D) else D(x, 0)

    def __add__(a, b):
        if not is_scalar(b): return NotImplemented      # let the other operand's reflected operator handle it
        return _add(a, b)
    __radd__ = __add__
    def __sub__(a, b):
        if not is_scalar(b): return NotImplemented
        return _sub(a, b)
    def __rsub__(a, b): return _sub(b, a)
    def __mul__(a, b):
        if not is_scalar(b):
            return NotImplemented          # Vec/Mat/SpatialVec/Inertia...: their __rmul__ handles scalar*object
        return _mul(a, b)
    def __rmul__(a, b): return _mul(b, a)
    def __truediv__(a, b):
        if not is_scalar(b): return NotImplemented
        return _div(a, b)
    def __rtruediv__(a, b): return _div(b, a)
    def __neg__(a): return _neg(a)
    def __pos__(a): return a
    # comparisons act on values and give z3 Booleans (used by BR()/ITE())
    def __lt__(a, b): return _raw(a) < _raw(b)
    def __le__(a, b): return _raw(a) <= _raw(b)
    def __gt__(a, b): return _raw(a) > _raw(b)
    def __ge__(a, b): return _raw(a) >= _raw(b)
    def __eq__(a, b): return _raw(a) == _raw(b)
    def __ne__(a, b): return _raw(a) != _raw(b)
    __hash__ = None


_TRIG = {}      # memo tables keyed on term text: (c,s) pairs, sqrt roots, reciprocals (per Env)


def Q(x):
    """exact rational literal"""
    if isinstance(x, str):
        return D(z3.RealVal(x))
    return D(z3.RealVal(str(fractions.Fraction(x))))


def _z(x):
    return D.lift(x)


def val(x):
    return _raw(x)


def der(x, order=1):
    """order-th derivative carried by a (nested) dual: .d taken `order` times, then the value"""
    for _ in range(order):
        x = x.d if isinstance(x, D) else 0
    return _raw(x)


def is_scalar(x):
    return isinstance(x, (int, fractions.Fraction, D)) or (z3.is_expr(x) and not isinstance(x, bool))


# ----------------------------------------------------------------------
# side conditions
# ----------------------------------------------------------------------
class Env:
    def __init__(self):
        self.abstract_scalars = False   # let-abstraction of scalar factors of vectors (see let_scalar)
        self.defs = []       # definitions t == term of the abstracted scalars
        self.side = []       # z3 BoolRefs assumed
        self.fresh = 0
        self.notes = []

    def assume(self, c):
        self.side.append(c)

    def new(self, prefix):
        self.fresh += 1
        return z3.Real("%s_%d" % (prefix, self.fresh))


ENV = Env()


def reset_env():
    global ENV
    ENV = Env()
    return ENV


class Angle:
    """symbolic angle known only through (c,s) with c^2+s^2==1; optional rate for duals"""
    def __init__(self, name, rate=None):
        self.c = z3.Real("c_" + name)
        self.s = z3.Real("s_" + name)
        self.rate = rate
        ENV.assume(self.c * self.c + self.s * self.s == 1)

    def plus_pi(self):
        a = Angle.__new__(Angle); a.c, a.s, a.rate = -self.c, -self.s, self.rate
        return a

    def __rmul__(self, n):
        if n == 2:                                   # 2*angle by the double-angle formulas
            a = self + self
            if hasattr(self, "yx"):
                y, x = self.yx                       # 2*atan2(y,x) > pi  <=>  y >= 0 and x < 0
                a.gt_pi = z3.And(y >= 0, x < 0)
            return a
        return NotImplemented
    __mul__ = __rmul__

    def __sub__(self, o):
        if isinstance(o, PiMult):
            return self if o.k % 2 == 0 else self.plus_pi()
        if isinstance(o, Angle):
            return self + (-o)
        return NotImplemented

    def __gt__(self, o):
        if isinstance(o, PiMult) and o.k == 1 and hasattr(self, "gt_pi"):
            return self.gt_pi
        raise TypeError("comparison of a symbolic angle that the (cos,sin) abstraction cannot decide")

    def __truediv__(self, o):
        raise TypeError("fraction of a symbolic angle is not representable in the (cos,sin) abstraction")

    def __add__(self, o):
        a = Angle.__new__(Angle)
        a.c, a.s = self.c * o.c - self.s * o.s, self.s * o.c + self.c * o.s
        a.rate = None if (self.rate is None and o.rate is None) else _add(0 if self.rate is None else self.rate, 0 if o.rate is None else o.rate)
        return a

    def __neg__(self):
        a = Angle.__new__(Angle); a.c, a.s = self.c, -self.s
        a.rate = None if self.rate is None else _neg(self.rate)
        return a




def _cs_pair(e):
    """(c,s) for a real-valued term e that is not an Angle: one fresh pair per distinct term"""
    k = e.sexpr()
    if k not in _TRIG or _TRIG[k][2] is not ENV:
        c, s_ = ENV.new("cosv"), ENV.new("sinv")
        ENV.assume(c * c + s_ * s_ == 1)
        _TRIG[k] = (c, s_, ENV)
    return _TRIG[k][0], _TRIG[k][1]


class PiMult:
    """integer multiple of pi (the only way the constant Pi enters angle arithmetic here)"""
    def __init__(self, k=1): self.k = k
    def __rmul__(self, n):
        if isinstance(n, int): return PiMult(self.k * n)
        return NotImplemented
    __mul__ = __rmul__
    def __neg__(self): return PiMult(-self.k)
    def __rsub__(self, o): return NotImplemented
    def __sub__(self, o):
        if isinstance(o, Angle):                      # k*pi - angle
            a = -o
            return a if self.k % 2 == 0 else a.plus_pi()
        return NotImplemented


def atan2_(y, x):
    """atan2 as an Angle A known through (c,s): c*rho == x, s*rho == y, rho = sqrt(x^2+y^2) > 0
    (the domain condition (x,y) != (0,0) becomes a side condition rho > 0)"""
    y, x = D.lift(y), D.lift(x)
    a = Angle.__new__(Angle)
    n = ENV.new("atan2")
    a.c, a.s = z3.Real(str(n) + "_c"), z3.Real(str(n) + "_s")
    rho = z3.Real(str(n) + "_rho")
    ENV.assume(z3.And(rho > 0, rho * rho == _raw(x) * _raw(x) + _raw(y) * _raw(y), a.c * rho == _raw(x), a.s * rho == _raw(y)))
    a.rate = None
    a.yx = (_raw(y), _raw(x))
    return a


def _cosv(v):
    return cos(v) if isinstance(v, D) else _cs_pair(_num(v))[0]


def _sinv(v):
    return sin(v) if isinstance(v, D) else _cs_pair(_num(v))[1]


def _exact_zero(a):
    if isinstance(a, int) and not isinstance(a, bool):
        return a == 0
    if isinstance(a, D) and not isinstance(a.v, D):
        v = z3.simplify(a.v)
        return z3.is_rational_value(v) and v.as_fraction() == 0
    return False


def cos(a):
    if _exact_zero(a):
        return D(1)
    if isinstance(a, Angle):
        return D(a.c) if a.rate is None else D(a.c, _neg(_mul(a.s, a.rate)))
    if isinstance(a, D):
        return D(_cosv(a.v), _neg(_mul(_sinv(a.v), a.d)))
    return D(_cosv(a))


def sin(a):
    if _exact_zero(a):
        return D(0)
    if isinstance(a, Angle):
        return D(a.s) if a.rate is None else D(a.s, _mul(a.c, a.rate))
    if isinstance(a, D):
        return D(_sinv(a.v), _mul(_cosv(a.v), a.d))
    return D(_sinv(a))


def sqrt(e):
    """r >= 0, r*r == e (domain e >= 0 becomes an explicit side condition)"""
    e = D.lift(e)
    if isinstance(e.v, D):
        r = sqrt(e.v)
    else:
        k = ("sqrt", z3.simplify(e.v).sexpr())
        if k in _TRIG and _TRIG[k][1] is ENV:
            r = _TRIG[k][0]                   # same radicand term -> same root variable
        else:
            r = ENV.new("sqrt")
            ENV.assume(z3.And(r >= 0, r * r == e.v))
            _TRIG[k] = (r, ENV)
    return D(r, _div(e.d, _mul(2, r)))


def sign(x):
    x = D.lift(x)
    return D(z3.If(_raw(x) > 0, z3.RealVal(1), z3.If(_raw(x) < 0, z3.RealVal(-1), z3.RealVal(0))))


def clamp(lo, x, hi):
    return ITE(_raw(x) < _raw(lo), lo, ITE(_raw(x) > _raw(hi), hi, x))


def square(x):
    return x * x


def cube(x):
    return x * x * x


# ----------------------------------------------------------------------
# vectors / matrices (column Vec, Row, Mat) with SimTK operator conventions:
#   ~x transpose, a % b cross product, ~a * b dot product, m(i,j) element,
#   m[i] row i, m(j) column j, Mat(rows...) constructors are row-major element lists
# ----------------------------------------------------------------------
HOOKS = {}


def let_scalar(x):
    """Let-abstraction (opaque / reveal): when ENV.abstract_scalars is on, a non-trivial scalar that
    multiplies or divides a vector is replaced by a fresh variable t, and the definition t == term is
    recorded in ENV.defs. A goal proved WITHOUT a definition holds for every value of t (sound
    generalisation); goals that need the value add ENV.defs to their hypotheses."""
    if not ENV.abstract_scalars or not isinstance(x, D):
        return x
    v = z3.simplify(_raw(x))
    if z3.is_const(v) or z3.is_rational_value(v):
        return x
    t = ENV.new("let")
    ENV.defs.append(("let", t, t == _raw(x)))     # unsimplified: the same term a path condition on x mentions
    return D(t)


class Vec:
    def __init__(self, *e):
        if len(e) == 1 and isinstance(e[0], (list, tuple)):
            e = e[0]
        self.e = [x if isinstance(x, (D, Angle)) else _z(x) for x in e]

    def __len__(self): return len(self.e)
    def size(self): return len(self.e)
    def __call__(self, i): return self.e[i]
    def __getitem__(self, i): return self.e[i]
    def __setitem__(self, i, v): self.e[i] = v if isinstance(v, Angle) else _z(v)
    def __iter__(self): return iter(self.e)
    def _new(self, e): return type(self)(list(e))
    def __add__(a, b): return a._new(x + y for x, y in zip(a.e, b.e))
    def __sub__(a, b): return a._new(x - y for x, y in zip(a.e, b.e))
    def __neg__(a): return a._new(-x for x in a.e)
    def __pos__(a): return a
    def __mul__(a, b):
        if is_scalar(b):
            b = let_scalar(b)
            return a._new(x * b for x in a.e)
        if isinstance(b, Row):           # outer product
            return Mat([[x * y for y in b.e] for x in a.e])
        return NotImplemented
    def __rmul__(a, b):
        if is_scalar(b):
            b = let_scalar(b)
            return a._new(b * x for x in a.e)
        return NotImplemented
    def __truediv__(a, b):
        if ENV.abstract_scalars and isinstance(b, D):
            # vector / scalar as multiplication by a reciprocal variable r with r*b == 1 (b != 0 is then
            # part of the hypotheses; the definition goes to ENV.defs like the other let-abstractions)
            b = let_scalar(b)
            r = D(_recip(_raw(b)))
            return a._new(x * r for x in a.e)
        b = let_scalar(b)
        return a._new(x / b for x in a.e)
    def __invert__(a): return Row(list(a.e))
    def __mod__(a, b):                    # cross product
        if isinstance(b, Vec) and len(a) == 3 and len(b) == 3:
            return cross(a, b)
        if isinstance(b, SymMat) and "cross_vec_symmat" in HOOKS:
            return HOOKS["cross_vec_symmat"](a, b)     # the transliterated real cross(Vec3,SymMat33)
        if isinstance(b, Mat) and len(a) == 3 and b.nr == 3:
            return crossMat(a) * b
        return NotImplemented
    def normSqr(a): return sum((x * x for x in a.e[1:]), a.e[0] * a.e[0])
    def norm(a): return sqrt(a.normSqr())
    def getSubVec(a, n, start): return Vec(a.e[start:start + n])
    def sum(a): return sum(a.e[1:], a.e[0])
    def asVec4(a): return a            # Quaternion_ is a Vec4 (the shims pass quaternions around as Vec)
    # C++ Vec == / != (all elements equal / some element differs): a concrete bool when decidable, else a z3 term (so that a
    # comparison guarding real code becomes a path condition instead of Python's identity comparison)
    __hash__ = object.__hash__
    def __eq__(a, b):
        if is_scalar(b):
            b = [b] * len(a.e)
        elif isinstance(b, Vec) and len(b.e) == len(a.e):
            b = b.e
        else:
            return NotImplemented
        if not all(isinstance(x, D) for x in a.e) or not all(isinstance(y, D) or is_scalar(y) for y in b):
            return a is b
        t = z3.simplify(z3.And(*[val(x) == val(_z(y)) for x, y in zip(a.e, b)]))
        return True if z3.is_true(t) else False if z3.is_false(t) else t
    def __ne__(a, b):
        r = a.__eq__(b)
        if r is NotImplemented:
            return r
        return (not r) if isinstance(r, bool) else z3.Not(r)


class Row(Vec):
    def __invert__(a): return Vec(list(a.e))
    def __mul__(a, b):
        if isinstance(b, Row):
            return NotImplemented
        if isinstance(b, Vec):            # row * col = scalar
            assert len(a) == len(b)
            return sum((x * y for x, y in zip(a.e[1:], b.e[1:])), a.e[0] * b.e[0])
        if isinstance(b, Mat):
            assert len(a) == b.nr
            return Row([sum((a.e[k] * b.m[k][j] for k in range(1, b.nr)), a.e[0] * b.m[0][j]) for j in range(b.nc)])
        if is_scalar(b):
            return Row([x * b for x in a.e])
        return NotImplemented
    def __mod__(a, b):
        if isinstance(b, Vec) and len(a) == 3 and len(b) == 3:      # Row % Row and Row % Vec both give a Row
            return Row(cross(Vec(a.e), Vec(b.e)).e)
        return NotImplemented


class Mat:
    def __init__(self, rows):
        self.m = [[_z(x) for x in r] for r in rows]
        self.nr, self.nc = len(self.m), len(self.m[0])

    @staticmethod
    def from_list(nr, nc, e):
        e = list(e)
        assert len(e) == nr * nc, "Mat%d%d needs %d elements, got %d" % (nr, nc, nr * nc, len(e))
        return Mat([e[i * nc:(i + 1) * nc] for i in range(nr)])

    def __call__(self, i, j=None):
        if j is None:
            return Vec([self.m[r][i] for r in range(self.nr)])     # column
        return self.m[i][j]

    def __getitem__(self, i):
        r = Row.__new__(Row); r.e = self.m[i]      # shares storage: R[i][j] = x writes through
        return r
    def __setitem__(self, i, row): self.m[i] = [_z(x) for x in row]
    def row(self, i): return Row(list(self.m[i]))
    def assign(self, other):
        self.m = [list(r) for r in other.m]; return self
    def col(self, j): return Vec([self.m[r][j] for r in range(self.nr)])
    def __invert__(a): return Mat([[a.m[i][j] for i in range(a.nr)] for j in range(a.nc)])
    def transpose(a): return ~a
    def _like(a, b, rows):
        cls = SymMat if (isinstance(a, SymMat) and (b is None or isinstance(b, SymMat))) else Mat
        return cls(rows)
    def __add__(a, b): return a._like(b, [[x + y for x, y in zip(r, s)] for r, s in zip(a.m, b.m)])
    def __sub__(a, b): return a._like(b, [[x - y for x, y in zip(r, s)] for r, s in zip(a.m, b.m)])
    def __neg__(a): return a._like(None, [[-x for x in r] for r in a.m])
    def __mul__(a, b):
        if isinstance(b, Mat):
            assert a.nc == b.nr
            return Mat([[sum((a.m[i][k] * b.m[k][j] for k in range(1, a.nc)), a.m[i][0] * b.m[0][j]) for j in range(b.nc)] for i in range(a.nr)])
        if isinstance(b, Row):
            return NotImplemented
        if isinstance(b, Vec):
            assert a.nc == len(b)
            return Vec([sum((a.m[i][k] * b.e[k] for k in range(1, a.nc)), a.m[i][0] * b.e[0]) for i in range(a.nr)])
        if isinstance(b, SpatialVec):
            return SpatialVec(a * b.e[0], a * b.e[1])
        if is_scalar(b):
            return a._like(None, [[x * b for x in r] for r in a.m])
        return NotImplemented
    def __rmul__(a, b):
        if is_scalar(b):
            return a._like(None, [[b * x for x in r] for r in a.m])
        return NotImplemented
    def __truediv__(a, b): return a._like(None, [[x / b for x in r] for r in a.m])
    def getEltDiag(a, i): return a.m[i][i]
    def getEltUpper(a, i, j): return a.m[i][j]
    def getEltLower(a, i, j): return a.m[i][j]
    def dropCol(a, j): return Mat([r[:j] + r[j + 1:] for r in a.m])
    def toMat33(a): return Mat(a.m)
    def elements(a): return [x for r in a.m for x in r]
    def getSubMat(a, nr, nc, i, j): return Mat([a.m[r][j:j + nc] for r in range(i, i + nr)])
    def trace(a): return sum((a.m[i][i] for i in range(1, a.nr)), a.m[0][0])
    def diag(a): return Vec([a.m[i][i] for i in range(a.nr)])


class SymMat(Mat):
    """symmetric matrix (full storage here; the packed layout of SimTK::SymMat is not modelled)"""
    pass


class SpatialVec:
    """Vec<2,Vec3>: [0] rotational part, [1] translational part"""
    def __init__(self, a, b):
        self.e = [a, b]
    def __getitem__(self, i): return self.e[i]
    def __setitem__(self, i, v): self.e[i] = v
    def __add__(a, b): return SpatialVec(a.e[0] + b.e[0], a.e[1] + b.e[1])
    def __sub__(a, b): return SpatialVec(a.e[0] - b.e[0], a.e[1] - b.e[1])
    def __neg__(a): return SpatialVec(-a.e[0], -a.e[1])
    def __rmul__(a, s): return SpatialVec(s * a.e[0], s * a.e[1])
    def __mul__(a, s): return SpatialVec(a.e[0] * s, a.e[1] * s)
    def __invert__(a): return SpatialRow(~a.e[0], ~a.e[1])
    def flat(a): return list(a.e[0].e) + list(a.e[1].e)


class SpatialRow:
    def __init__(self, a, b):
        self.e = [a, b]
    def __mul__(a, b):
        if isinstance(b, SpatialVec):
            return a.e[0] * b.e[0] + a.e[1] * b.e[1]
        return NotImplemented
    def __invert__(a): return SpatialVec(~a.e[0], ~a.e[1])


class Transform:
    def __init__(self, R, p):
        self._R, self._p = R, p
    def R(self): return self._R
    def p(self): return self._p


def symmat33(*a):
    """SimTK SymMat33 constructor: lower triangle by rows (00; 10 11; 20 21 22)"""
    if len(a) == 1 and isinstance(a[0], Mat):
        return SymMat(a[0].m)
    if len(a) == 1 and is_scalar(a[0]):
        return SymMat([[a[0] if i == j else 0 for j in range(3)] for i in range(3)])
    assert len(a) == 6
    a00, a10, a11, a20, a21, a22 = a
    return SymMat([[a00, a10, a20], [a10, a11, a21], [a20, a21, a22]])


def eye(n):
    return Mat([[1 if i == j else 0 for j in range(n)] for i in range(n)])


def dot(a, b):
    return sum((x * y for x, y in zip(list(a)[1:], list(b)[1:])), a[0] * b[0])


def cross(a, b):
    return Vec(a[1] * b[2] - a[2] * b[1], a[2] * b[0] - a[0] * b[2], a[0] * b[1] - a[1] * b[0])


def crossMat(v):
    return Mat([[0, -v[2], v[1]], [v[2], 0, -v[0]], [-v[1], v[0], 0]])


def det3(m):
    a = m.m
    return (a[0][0] * (a[1][1] * a[2][2] - a[1][2] * a[2][1]) - a[0][1] * (a[1][0] * a[2][2] - a[1][2] * a[2][0])
            + a[0][2] * (a[1][0] * a[2][1] - a[1][1] * a[2][0]))


def vec_sym(name, n, rate_prefix=None):
    return Vec([z3.Real("%s%d" % (name, i)) for i in range(n)])


def ITE(c, a, b):
    if isinstance(c, bool):
        return a if c else b
    if isinstance(a, D) or isinstance(b, D):
        a, b = D.lift(a), D.lift(b)
        return D(ITE(c, a.v, b.v), ITE(c, a.d, b.d))
    return z3.If(c, _num(a), _num(b))


def mat_sym(name, nr, nc):
    return Mat([[z3.Real("%s%d%d" % (name, i, j)) for j in range(nc)] for i in range(nr)])


def elements(x):
    if isinstance(x, SpatialVec):
        return x.flat()
    if isinstance(x, Mat):
        return x.elements()
    if isinstance(x, Vec):
        return list(x.e)
    return [x]


def vmap(f, x):
    if isinstance(x, SpatialVec):
        return SpatialVec(vmap(f, x.e[0]), vmap(f, x.e[1]))
    if isinstance(x, Mat):
        return Mat([[f(e) for e in r] for r in x.m])
    if isinstance(x, Row):
        return Row([f(e) for e in x.e])
    if isinstance(x, Vec):
        return Vec([f(e) for e in x.e])
    return f(x)


def Rx(a):
    c, s = cos(a), sin(a)
    return Mat([[1, 0, 0], [0, c, -s], [0, s, c]])


def Ry(a):
    c, s = cos(a), sin(a)
    return Mat([[c, 0, s], [0, 1, 0], [-s, 0, c]])


def Rz(a):
    c, s = cos(a), sin(a)
    return Mat([[c, -s, 0], [s, c, 0], [0, 0, 1]])


# ----------------------------------------------------------------------
# discharging
# ----------------------------------------------------------------------
class Result:
    def __init__(self, status, seconds, model=None, smt2=None, backend="z3", reason=""):
        self.status, self.seconds, self.model, self.smt2, self.backend, self.reason = status, seconds, model, smt2, backend, reason


def timeout_scale():
    """solver budgets are wall-clock: stretch them when the machine is oversubscribed (or by VERIF_TIMEOUT_SCALE), so that a busy
    machine gives the same verdicts as an idle one. A budget never affects soundness, only how long 'undecided' takes."""
    try:
        env = os.environ.get("VERIF_TIMEOUT_SCALE")
        if env:
            return max(1.0, float(env))
        return max(1.0, min(5.0, 1.5 * os.getloadavg()[0] / (os.cpu_count() or 4)))
    except Exception:
        return 1.0


def prove(goal, side=None, timeout_ms=20000, name="ob", outdir=None, second_opinion=False):
    """goal: z3 BoolRef to be proved valid under the side conditions.
    Returns Result(status in discharged|failed|undecided)."""
    timeout_ms = int(timeout_ms * timeout_scale())
    side = list(ENV.side if side is None else side)
    s = z3.Solver()
    s.set("timeout", timeout_ms)
    for c in side:
        s.add(c)
    s.add(z3.Not(goal))
    t0 = time.time()
    path = None
    if outdir:
        os.makedirs(outdir, exist_ok=True)
        path = os.path.join(outdir, re.sub(r"[^A-Za-z0-9_.-]", "_", name)[:150] + ".smt2")
        with open(path, "w") as f:
            f.write("(set-logic QF_NRA)\n" + s.to_smt2())
    r = s.check()
    dt = time.time() - t0
    if r == z3.unsat:
        res = Result("discharged", dt, smt2=path)
        if second_opinion and path:
            st2, dt2 = run_cvc5(path, min(5.0, timeout_ms / 1000.0))     # second opinion is time-boxed
            res.backend = "z3+cvc5" if st2 == "unsat" else "z3 (cvc5: %s)" % st2
            res.seconds += dt2
        return res
    if r == z3.sat:
        m = s.model()
        model = {}
        for d in m.decls():
            v = m[d]
            try:
                model[d.name()] = str(v.as_fraction()) if z3.is_rational_value(v) else str(v.approx(20)) if z3.is_algebraic_value(v) else str(v)
            except Exception:
                model[d.name()] = str(v)
        return Result("failed", dt, model=model, smt2=path)
    # z3 unknown: try cvc5 on the file
    if path:
        st2, dt2 = run_cvc5(path, timeout_ms / 1000.0)
        if st2 == "unsat":
            return Result("discharged", dt + dt2, smt2=path, backend="cvc5")
    return Result("undecided", dt, smt2=path, reason=s.reason_unknown())


def run_cvc5(path, timeout_s):
    t0 = time.time()
    try:
        p = subprocess.run(["cvc5", "--tlimit=%d" % int(timeout_s * 1000), path], capture_output=True, text=True, timeout=timeout_s + 5)
        out = p.stdout.strip().split("\n")[0] if p.stdout.strip() else "error"
    except subprocess.TimeoutExpired:
        out = "timeout"
    return out, time.time() - t0


def eq_all(lhs, rhs):
    """list of (index-label, BoolRef) equalities between two scalars/Vecs/Mats (values, not duals)"""
    a, b = elements(lhs), elements(rhs)
    assert len(a) == len(b), "shape mismatch %d vs %d" % (len(a), len(b))
    return [(i, val(x) == val(y)) for i, (x, y) in enumerate(zip(a, b))]
