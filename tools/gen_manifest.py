"""Regenerates /verif/MANIFEST.json from checks/*.py META blocks + not_applicable.json."""
import json, os, re, sys, importlib
V = os.path.dirname(os.path.dirname(os.path.abspath(__file__)))
sys.path.insert(0, os.path.join(V, "tools")); sys.path.insert(0, os.path.join(V, "checks"))
props = [json.loads(l)["id"] for l in open(os.path.join(V, "properties.jsonl"))]
na = json.load(open(os.path.join(V, "not_applicable.json")))
checks = []
claimed = []
allow = json.load(open(os.path.join(V, "claimed.json")))   # checks reviewed and passing on the unchanged tree
for pid in props:
    f = os.path.join(V, "checks", pid.lower() + ".py")
    if pid not in allow or not os.path.exists(f):
        continue
    m = importlib.import_module(pid.lower())
    M = m.META
    claimed.append(pid)
    checks.append(dict(
        property_id=pid,
        quick_cmd="./check %s --tier quick" % pid,
        thorough_cmd="./check %s --tier thorough" % pid,
        evidence_file="/verif/evidence/%s.json" % pid,
        replay_cmd_template="./check %s --replay {path}" % pid,
        engine="contracts",
        level_claimed=dict(category=M["category"], text=M["text"], design_ref="DESIGN.md " + M.get("design_ref", "")),
        level_note=M["note"],
        technique=M["technique"]))
missing = [p for p in props if p not in claimed and p not in na]
if missing:
    print("properties neither claimed nor not_applicable:", missing); sys.exit(1)
man = dict(
    version=1,
    setup_cmd="sh /verif/tools/setup.sh",
    hooks=dict(guard="SIMBODY_VERIF", enable="no hooks: contracts live in /verif/specs and are attached to code extracted from /repo on every run (DESIGN 2.4)",
               baseline_off_cmd="cmake --build /repo/_build -j14 && ctest --test-dir /repo/_build -j8 --timeout 900",
               source_commits=[], add_only=True),
    engines=[dict(name="contracts", path="/verif/check", serves_properties=claimed,
                  kind_free_text="contract-based deductive verification: CBMC 6.11 code contracts (dfcc) on code mechanically extracted from /repo each run; real-arithmetic WP generator + z3/cvc5 for hand-expanded algebra")],
    checks=checks,
    notes="Exit codes: 0 all obligations discharged; 1 VIOLATION; 2 UNDECIDED (extraction/solver/tool trouble, never reported as a violation). known_findings.json lists the genuine defects found (status fixed = repaired by a 'fix:' commit in /repo and no longer suppressed; status open = reported as KNOWN-FINDING lines).",
    not_applicable=[dict(property_id=p, reason=na[p]) for p in props if p not in claimed])
json.dump(man, open(os.path.join(V, "MANIFEST.json"), "w"), indent=1)
print("MANIFEST: %d checks, %d not applicable" % (len(checks), len(man["not_applicable"])))
