#!/bin/bash
# For each seeded change under /verif/seeded/<PROP>-m<k>/: apply it in a scratch worktree and run the
# property's check against that tree (VERIF_REPO). Records exit code and the first VIOLATION lines in
# seeded/<dir>/detect.json. /repo itself is never touched. usage: seed_matrix.sh [dir-glob]
WT=/tmp/wt_seedmatrix
cd /verif
git -C /repo worktree remove --force $WT >/dev/null 2>&1
git -C /repo worktree add --detach $WT HEAD -q || exit 2
for d in ${1:-/verif/seeded/*}; do
  [ -f $d/patch.diff ] || continue
  pid=$(basename $d | cut -d- -f1)
  git -C $WT checkout -q -- . ; git -C $WT apply $d/patch.diff || { echo "$d: patch does not apply"; continue; }
  # the property's own check first, then the checks whose contracts cover neighbouring code of the same mechanism
  case $pid in C19) rel="C19 C22";; C22) rel="C22 C19";; C37) rel="C37 C13";; C38) rel="C38 C12 C13";; C12) rel="C12 C38";; C13) rel="C13 C38 C37";; C02) rel="C02 C01";; C01) rel="C01 C02";; C03) rel="C03 C05";; C05) rel="C05 C03";; *) rel="$pid";; esac
  : > $d/detect.log
  for chk in $rel; do
    s=$(date +%s)
    VERIF_REPO=$WT ./check $chk --tier ${TIER:-quick} > $d/detect_$chk.log 2>&1; rc=$?
    e=$(date +%s)
    echo "== $chk rc=$rc secs=$((e-s))" >> $d/detect.log; grep -E "^VIOLATION|failed-obligation:|^C[0-9]+:" $d/detect_$chk.log | head -12 >> $d/detect.log
    rm -f $d/detect_$chk.log
    [ $rc -eq 1 ] && break
  done
  python3 - "$d" "$pid" <<'PY'
import json,sys,re
d,pid=sys.argv[1:3]
runs=[]; cur=None
for l in open(d+"/detect.log").read().splitlines():
    m=re.match(r"== (C\d+) rc=(\d+) secs=(\d+)", l)
    if m:
        cur=dict(check=m.group(1), exit_code=int(m.group(2)), seconds=int(m.group(3)), violation_lines=0, reproduced_on_real_code=False, first_failed_obligations=[], summary="")
        runs.append(cur); continue
    if cur is None: continue
    if l.startswith("VIOLATION"):
        cur["violation_lines"]+=1
        if "no-failing-input-found" not in l: cur["reproduced_on_real_code"]=True
    elif l.strip().startswith("failed-obligation:") and len(cur["first_failed_obligations"])<3:
        cur["first_failed_obligations"].append(l.strip()[:220])
    elif re.match(r"C\d+:", l): cur["summary"]=l
det=[r for r in runs if r["exit_code"]==1]
json.dump(dict(property=pid, detected=bool(det), detected_by=[r["check"] for r in det], runs=runs), open(d+"/detect.json","w"), indent=1)
print(d, "detected_by=%s" % [r["check"] for r in det], (det[0]["first_failed_obligations"][:1] if det else [""])[0][:120] if det else "")
PY
done
git -C /repo worktree remove --force $WT
# leave evidence/out of the real tree intact: re-run nothing here (the caller re-runs the checks on /repo)
