#!/bin/bash
# For each seeded change under /verif/seeded/<PROP>-m<k>/: apply it in a scratch worktree and run the
# property's check against that tree (VERIF_REPO). Records exit code and the first VIOLATION lines in
# seeded/<dir>/detect.json. /repo itself is never touched. usage: seed_matrix.sh [dir-glob]
WT=/tmp/wt_seedmatrix
cd /verif
git -C /repo worktree remove --force $WT >/dev/null 2>&1
git -C /repo worktree add --detach $WT HEAD -q || exit 2
for d in ${1:-/verif/seeded/*}; do
  [ -f $d/patch.diff ] || continue
  pid=$(basename $d | cut -d- -f1)
  git -C $WT checkout -q -- . ; git -C $WT apply $d/patch.diff || { echo "$d: patch does not apply"; continue; }
  s=$(date +%s)
  VERIF_REPO=$WT ./check $pid --tier ${TIER:-quick} > $d/detect.log 2>&1; rc=$?
  e=$(date +%s)
  python3 - "$d" "$pid" "$rc" "$((e-s))" <<'PY'
import json,sys,re
d,pid,rc,secs=sys.argv[1:5]
log=open(d+"/detect.log").read().splitlines()
viol=[l for l in log if l.startswith("VIOLATION")]
obl=[l.strip() for l in log if l.strip().startswith("failed-obligation:")]
json.dump(dict(check=pid, exit_code=int(rc), seconds=int(secs), detected=(int(rc)==1), violation_lines=len(viol),
               reproduced_on_real_code=any("no-failing-input-found" not in l for l in viol) if viol else False,
               first_failed_obligations=obl[:3], summary=log[-1] if log else ""), open(d+"/detect.json","w"), indent=1)
print(d, "rc=%s"%rc, (obl[:1] or [""])[0][:140])
PY
done
git -C /repo worktree remove --force $WT
# leave evidence/out of the real tree intact: re-run nothing here (the caller re-runs the checks on /repo)
