#!/bin/sh
# Private incremental build of the three simbody libraries from /repo's working tree
# (used only by native replay drivers). Safe to re-run; ninja rebuilds what changed.
set -e
B=/verif/.build
REPO=${VERIF_REPO:-/repo}
if [ ! -f $B/build.ninja ]; then
  mkdir -p $B
  cmake -G Ninja -S $REPO -B $B -DCMAKE_BUILD_TYPE=Release -DBUILD_TESTING=OFF \
    -DBUILD_EXAMPLES=OFF -DBUILD_VISUALIZER=OFF -DINSTALL_DOCS=OFF \
    -DCMAKE_CXX_FLAGS="-w" > $B/configure.log 2>&1
fi
ninja -C $B SimTKcommon SimTKmath SimTKsimbody > $B/build.log 2>&1
