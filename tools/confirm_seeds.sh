#!/bin/bash
# Confirms seeded changes independently: for each <dir> given (containing patch.diff, demo.cpp):
# baseline demo passes, change compiles, existing test suite still passes (except the known
# always-failing TestCustomConstraints), demo fails with the change. Writes <dir>/confirm.json.
# usage: confirm_seeds.sh <dir>...      (scratch worktree /tmp/wt_confirm, removed at the end)
WT=/tmp/wt_confirm
J=${JOBS:-8}
set -u
git -C /repo worktree remove --force $WT >/dev/null 2>&1
git -C /repo worktree add --detach $WT HEAD -q || exit 2
cmake -G Ninja -S $WT -B $WT/_b -DCMAKE_BUILD_TYPE=RelWithDebInfo -DBUILD_EXAMPLES=OFF -DBUILD_VISUALIZER=OFF -DCMAKE_CXX_FLAGS=-w > $WT/_cfg.log 2>&1
cmake --build $WT/_b -j$J > $WT/_build0.log 2>&1 || { echo "baseline build failed"; exit 2; }
INC=$(find $WT/SimTKcommon $WT/SimTKmath $WT/Simbody -type d -name include | grep -v tests | sed 's/^/-I/' | tr '\n' ' ')
build_demo() { # $1 = dir, $2 = exe
  g++ -std=c++17 -O1 -w $(cat $1/demo_flags 2>/dev/null) $INC -I$WT/SimTKcommon/Random/src -I$WT/SimTKcommon/src -I$WT/Simbody/src -I$WT/SimTKmath/Integrators/src $1/demo.cpp -o $2 -L$WT/_b -Wl,-rpath,$WT/_b -lSimTKsimbody -lSimTKmath -lSimTKcommon -lpthread -ldl > $1/confirm_build.log 2>&1
}
for d in "$@"; do
  echo "== $d"
  build_demo $d $WT/demo0 && (cd $WT && timeout 600 ./demo0 > $d/confirm_demo_without.log 2>&1); r0=$?
  git -C $WT apply $d/patch.diff || { echo "{\"applies\": false}" > $d/confirm.json; continue; }
  cmake --build $WT/_b -j$J > $d/confirm_rebuild.log 2>&1; rb=$?
  tests=$(ctest --test-dir $WT/_b -j$J --timeout 900 2>&1 | tail -12)
  failed=$(echo "$tests" | grep -E "^\s+[0-9]+ - " | grep -v TestCustomConstraints | wc -l)
  summary=$(echo "$tests" | grep "tests passed")
  build_demo $d $WT/demo1 && (cd $WT && timeout 600 ./demo1 > $d/confirm_demo_with.log 2>&1); r1=$?
  git -C $WT checkout -- . 
  cmake --build $WT/_b -j$J > /dev/null 2>&1
  python3 - "$d" "$r0" "$rb" "$failed" "$summary" "$r1" <<'PY'
import json,sys
d,r0,rb,failed,summary,r1=sys.argv[1:7]
json.dump(dict(demo_exit_without_change=int(r0), rebuild_exit_with_change=int(rb), other_tests_failed_with_change=int(failed),
               ctest_summary_with_change=summary.strip(), demo_exit_with_change=int(r1),
               confirmed=(int(r0)==0 and int(rb)==0 and int(failed)==0 and int(r1)!=0)), open(d+"/confirm.json","w"), indent=1)
print(open(d+"/confirm.json").read())
PY
done
git -C /repo worktree remove --force $WT
