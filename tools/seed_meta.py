"""Merges the independent confirmation (confirm.json, tools/confirm_seeds.sh) and the detection runs (detect.json,
tools/seed_matrix.sh) into seeded/<id>/meta.json: which property the change breaks, what it needs to manifest, what was run."""
import json, os, glob, sys
V = os.path.dirname(os.path.dirname(os.path.abspath(__file__)))
for d in sorted(glob.glob(os.path.join(V, "seeded", "*"))):
    mp = os.path.join(d, "meta.json")
    if not os.path.exists(mp):
        continue
    m = json.load(open(mp))
    m.setdefault("property", os.path.basename(d).split("-")[0])
    ran = []
    cp, dp = os.path.join(d, "confirm.json"), os.path.join(d, "detect.json")
    if os.path.exists(cp):
        c = json.load(open(cp))
        m["confirmed_in_scratch_worktree"] = c
        ran.append("tools/confirm_seeds.sh %s: scratch worktree of /repo HEAD, baseline build, demo without the change (exit %s), git apply patch.diff, rebuild (exit %s), "
                   "ctest (%s; other failures than TestCustomConstraints: %s), demo with the change (exit %s)"
                   % (os.path.basename(d), c.get("demo_exit_without_change"), c.get("rebuild_exit_with_change"), c.get("ctest_summary_with_change"),
                      c.get("other_tests_failed_with_change"), c.get("demo_exit_with_change")))
    if os.path.exists(dp):
        t = json.load(open(dp))
        m["detection"] = t
        for r in t.get("runs", []):
            ran.append("tools/seed_matrix.sh %s: patch applied in a scratch worktree, VERIF_REPO=<worktree> ./check %s --tier quick -> exit %s (%s); native replay reproduced: %s"
                       % (os.path.basename(d), r["check"], r["exit_code"], r.get("summary", ""), r.get("reproduced_on_real_code")))
    m["what_was_run"] = ran
    json.dump(m, open(mp, "w"), indent=1)
    print(os.path.basename(d), "confirmed=%s" % m.get("confirmed_in_scratch_worktree", {}).get("confirmed"), "detected_by=%s" % m.get("detection", {}).get("detected_by"))
