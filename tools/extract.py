"""Route M2: verbatim cut of a function from /repo + closed list of token rewrites.
Every rule is must-fire: a rule whose hit count differs from its spec raises
ExtractionError (-> exit 2 UNDECIDED, never a violation)."""
import re, os


class ExtractionError(Exception):
    pass


def blank_comments(text):
    """Replace comments and string/char literal contents by spaces (same length,
    newlines kept) so brace matching and regexes do not see them."""
    out = []
    i, n = 0, len(text)
    while i < n:
        c = text[i]
        if text.startswith("//", i):
            j = text.find("\n", i)
            j = n if j < 0 else j
            out.append(" " * (j - i)); i = j
        elif text.startswith("/*", i):
            j = text.find("*/", i + 2)
            j = n if j < 0 else j + 2
            out.append("".join(ch if ch == "\n" else " " for ch in text[i:j])); i = j
        elif c == '"' or c == "'":
            j = i + 1
            while j < n and text[j] != c:
                j += 2 if text[j] == "\\" else 1
            j = min(n, j + 1)
            out.append(c + " " * (j - i - 2) + (c if j - i >= 2 else "")); i = j
        else:
            out.append(c); i += 1
    return "".join(out)


def strip_comments(text):
    """Remove comments but keep string literals."""
    out = []
    i, n = 0, len(text)
    while i < n:
        c = text[i]
        if text.startswith("//", i):
            j = text.find("\n", i)
            i = n if j < 0 else j
        elif text.startswith("/*", i):
            j = text.find("*/", i + 2)
            j = n if j < 0 else j + 2
            out.append("".join(ch for ch in text[i:j] if ch == "\n")); i = j
        elif c == '"' or c == "'":
            j = i + 1
            while j < n and text[j] != c:
                j += 2 if text[j] == "\\" else 1
            j = min(n, j + 1)
            out.append(text[i:j]); i = j
        else:
            out.append(c); i += 1
    return "".join(out)


def match_brace(blank, open_pos):
    assert blank[open_pos] in "{(["
    pairs = {"{": "}", "(": ")", "[": "]"}
    o = blank[open_pos]; c = pairs[o]
    depth = 0
    for k in range(open_pos, len(blank)):
        ch = blank[k]
        if ch == o:
            depth += 1
        elif ch == c:
            depth -= 1
            if depth == 0:
                return k
    raise ExtractionError("unbalanced %s at offset %d" % (o, open_pos))


class Cut:
    def __init__(self, path, name, text, start, end, header, body):
        self.path, self.name, self.text = path, name, text
        self.start, self.end = start, end
        self.header = header      # signature text up to (excluding) '{'
        self.body = body          # text between the outer braces (exclusive)


def cut_function(path, anchor, name=None, occurrence=1, expect_total=None):
    """Locate `anchor` (regex, matched on comment-blanked text) which must end just
    before the function's opening '{' (initializer lists allowed in between), cut
    through the matching '}'. occurrence: 1-based index among matches."""
    src = open(path).read()
    blank = blank_comments(src)
    ms = list(re.finditer(anchor, blank))
    if expect_total is not None and len(ms) != expect_total:
        raise ExtractionError("%s: anchor /%s/ matched %d times, expected %d" % (path, anchor, len(ms), expect_total))
    defs = []
    for m in ms:
        ob = blank.find("{", m.end() - 1 if blank[m.end() - 1] == "{" else m.end())
        semi = blank.find(";", m.end())
        if ob < 0 or (0 <= semi < ob):
            continue            # a declaration, not a definition
        defs.append((m, ob))
    if len(defs) < occurrence:
        raise ExtractionError("%s: anchor /%s/ has %d definitions, need occurrence %d" % (path, anchor, len(defs), occurrence))
    m, ob = defs[occurrence - 1]
    cb = match_brace(blank, ob)
    start = src.count("\n", 0, m.start()) + 1
    end = src.count("\n", 0, cb) + 1
    return Cut(path, name or anchor, src[m.start():cb + 1], start, end, src[m.start():ob], src[ob + 1:cb])


def cut_region(path, begin_rx, end_rx, name):
    """Cut a region of declarations between two anchors (exclusive of end)."""
    src = open(path).read()
    blank = blank_comments(src)
    b = re.search(begin_rx, blank)
    if not b:
        raise ExtractionError("%s: region begin /%s/ not found" % (path, begin_rx))
    e = re.compile(end_rx).search(blank, b.end())
    if not e:
        raise ExtractionError("%s: region end /%s/ not found" % (path, end_rx))
    start = src.count("\n", 0, b.start()) + 1
    end = src.count("\n", 0, e.start()) + 1
    return Cut(path, name, src[b.start():e.start()], start, end, "", src[b.start():e.start()])


class Rewriter:
    def __init__(self, text, name=""):
        self.text = strip_comments(text)
        self.name = name
        self.log = []
        self.dropped = []

    STRICT = False      # True restores the original behaviour: any hit-count deviation aborts the extraction

    def sub(self, rule, pattern, repl, count=None, min_count=1, flags=0, strict=None):
        """count=None: at least min_count hits expected; else exactly count hits expected.
        The expected counts are those of the unchanged tree. A pure rewrite is meaning-preserving however
        often it fires, so on a CHANGED tree a deviating count is recorded in the extraction report
        ('deviation') and extraction continues: a deleted or duplicated statement must lead to a contract
        verdict (VIOLATION or pass), not to UNDECIDED. If the deviation means the text can no longer be
        adapted, the C unit fails to compile, which is still reported as UNDECIDED."""
        hits = [m.group(0) for m in re.finditer(pattern, self.text, flags)]
        n = len(hits)
        if (count is not None and n != count) or (count is None and n < min_count):
            if strict or (strict is None and self.STRICT):
                raise ExtractionError("%s: rewrite rule '%s' /%s/ fired %d times, expected %s"
                                      % (self.name, rule, pattern, n, count if count is not None else ">=%d" % min_count))
            self.log.append(dict(rule=rule, pattern=pattern, deviation="fired %d times, expected %s (tree differs from the pinned one)"
                                 % (n, count if count is not None else ">=%d" % min_count), hits=n, examples=hits[:3]))
        new = re.sub(pattern, repl, self.text, flags=flags)
        self.log.append(dict(rule=rule, pattern=pattern, replacement=repl if isinstance(repl, str) else "<fn>", hits=n,
                             examples=hits[:3]))
        self.text = new
        return self

    def lit(self, rule, old, new, count=None, min_count=1):
        return self.sub(rule, re.escape(old), new.replace("\\", "\\\\"), count, min_count)

    def drop(self, rule, pattern, repl="", count=1, flags=0):
        hits = [m.group(0) for m in re.finditer(pattern, self.text, flags)]
        if len(hits) > count:       # dropping MORE than foreseen could hide behaviour: stay strict; dropping less (text absent) is harmless
            raise ExtractionError("%s: drop rule '%s' /%s/ fired %d times, expected %d" % (self.name, rule, pattern, len(hits), count))
        self.dropped += [dict(rule=rule, text=h) for h in hits]
        self.text = re.sub(pattern, repl, self.text, flags=flags)
        return self

    def members(self, names, prefix="self->"):
        """implicit-this rule: bare identifier -> self->identifier (not after . or ->, not a declaration)."""
        for nm in names:
            # zero hits are fine here: an unmentioned member needs no rewrite, and a member
            # the table does not know makes the C unit fail to compile (-> UNDECIDED)
            self.sub("implicit-this:" + nm, r"(?<![\w.>])" + re.escape(nm) + r"\b(?!\s*\()", prefix + nm, None, 0)
        return self

    def splice_loop(self, rule, loop_rx, contract, ordinal=1):
        """Insert loop contract text between the loop header `for(...)`/`while(...)` and its body."""
        blank = blank_comments(self.text)
        ms = list(re.finditer(loop_rx, blank))
        if len(ms) < ordinal:
            raise ExtractionError("%s: loop rule '%s' /%s/ matched %d times, need ordinal %d" % (self.name, rule, loop_rx, len(ms), ordinal))
        m = ms[ordinal - 1]
        op = blank.find("(", m.start())
        cp = match_brace(blank, op)
        self.text = self.text[:cp + 1] + "\n" + contract + "\n" + self.text[cp + 1:]
        self.log.append(dict(rule=rule, pattern=loop_rx, replacement="<loop contract spliced>", hits=1, examples=[blank[m.start():cp + 1][:80]]))
        return self
