"""Route M3: mechanical transliteration of straight-line C++ (declarations with
initialisers, assignments, if/else, for with simple bounds, return, calls) into Python
statements that are textually the same expressions; Python operator overloading on
the symlib types gives them meaning on symbolic reals / dual numbers.

Everything that is stripped or rewritten is logged (rule, count, examples); an
unrecognised statement raises ExtractionError (-> UNDECIDED, never a violation)."""
import re
from extract import ExtractionError, strip_comments, blank_comments, match_brace

TYPE_RX = (r"(?:typename\s+)?(?:SimTK::)?(?:"
           r"RealP|Real|P|E|T|EV|EM|E1|E2|EResult|EPrecision|long double|double|float|int|bool|unsigned|"
           r"(?:Unit)?Vec[2-6]?P?|Row[2-6]?P?|Mat[2-6][2-6]P?|SymMat[2-6][2-6]P?|SpatialVecP?|SpatialVec|SpatialRowP?|SpatialMatP?|"
           r"QuaternionP?|Quaternion_<P>|Rotation_<P>|RotationP|Rotation|InverseRotation_<P>|Transform_<P>|TransformP|Transform|"
           r"UnitVec<P,1>|UnitVec3P?|UnitVecP|"
           r"(?:Unit)?(?:Vec|Row|Mat|SymMat)<[^;=()]*?>|Inertia_<P>|InertiaP|Inertia_|Inertia|UnitInertia_<P>|UnitInertiaP|UnitInertia_|UnitInertia|Gyration_<P>|"
           r"CoordinateAxis|CoordinateDirection|BodyOrSpaceType|MassProperties_<P>|MassPropertiesP|SpatialInertia_<P>|SpatialInertia_|ArticulatedInertia_<P>|ArticulatedInertia_|Mat33E|Vec3E|auto"
           r")")
DECL_RX = re.compile(r"^(?:static\s+)?(?:const\s+)?(" + TYPE_RX + r")\s*(?:const\s*)?&?\s+(?=[A-Za-z_])")


GENERIC_DECL_RX = re.compile(r"^(?:static\s+)?(?:const\s+)?((?:[A-Za-z_]\w*::)*[A-Za-z_]\w*(?:<[^;=()]*?>)?(?:::\w+)?)\s*(?:const\s*)?[&*]?\s+(?=[A-Za-z_]\w*\s*(?:=|\(|,|$))(?!(?:and|or|not|if|else|in|is)\b)")


def split_top(s, sep=","):
    out, depth, cur = [], 0, []
    i = 0
    while i < len(s):
        ch = s[i]
        if ch in "([{":
            depth += 1
        elif ch in ")]}":
            depth -= 1
        if ch == sep and depth == 0:
            out.append("".join(cur)); cur = []
        else:
            cur.append(ch)
        i += 1
    out.append("".join(cur))
    return [x.strip() for x in out]


class Translit:
    keep_asserts = False     # True: assert(c) becomes ASSERT(c, "text") (a precondition obligation) instead of being dropped

    def __init__(self, name):
        self.name = name
        self.log = {}
        self.dropped = []

    def hit(self, rule, example):
        d = self.log.setdefault(rule, dict(rule=rule, hits=0, examples=[]))
        d["hits"] += 1
        if len(d["examples"]) < 3:
            d["examples"].append(example[:120])

    # ---- expressions ----------------------------------------------------
    def expr(self, e):
        e = e.strip()
        e0 = e
        # template spellings of fixed-size types -> flat names
        def flat(m):
            self.hit("template-type-flatten", m.group(0))
            return "%s_%s" % (m.group(1), re.sub(r"[^0-9A-Za-z]+", "_", m.group(2)).strip("_"))
        e = re.sub(r"\b((?:Unit)?(?:Vec|Row|Mat|SymMat))<([^<>()]*)>", flat, e)
        if re.search(r"\b\w+<P>", e):
            self.hit("template-type-flatten", e0); e = re.sub(r"\b(\w+)<P>", r"\1_P", e)
        for a, b in (("std::cos(", "cos("), ("std::sin(", "sin("), ("std::sqrt(", "sqrt("), ("std::abs(", "abs_("),
                     ("std::min(", "min_("), ("std::max(", "max_("), ("std::pow(", "pow_("), ("std::atan2(", "atan2_("),
                     ("std::acos(", "acos_("), ("std::asin(", "asin_("), ("std::fabs(", "abs_("), ("std::exp(", "exp_("),
                     ("std::tanh(", "tanh_("), ("std::log(", "log_(")):
            if a in e:
                self.hit("std::fn", a); e = e.replace(a, b)
        # numeric literals with a fraction/exponent (and optional f/L suffix) -> exact rationals
        def lit(m):
            t = m.group(0)
            self.hit("float-literal->exact-rational", t)
            t2 = t.rstrip("fFlL")
            if t2.endswith("."):
                t2 += "0"
            if t2.startswith("."):
                t2 = "0" + t2
            return 'Q("%s")' % t2
        e = re.sub(r"(?<![\w.])(?:\d+\.\d*|\.\d+)(?:[eE][-+]?\d+)?[fFlL]?|(?<![\w.])\d+[eE][-+]?\d+[fFlL]?", lit, e)
        if re.search(r"(?<![\w.\"])\d+\s*/\s*\d+(?![\w.])", e):
            raise ExtractionError("%s: integer/integer division in '%s' (C++ truncates, Python does not)" % (self.name, e0))
        # scalar casts
        def cast(m):
            self.hit("scalar-cast-dropped", m.group(0)); return "("
        e = re.sub(r"\b(?:RealP|Real|P|E|double|float)\s*\((?=[^)])", cast, e)
        e = re.sub(r"static_cast<\s*(?:RealP|Real|P|double|float|T)\s*>\s*\(", cast, e)
        if re.search(r"\(\s*T\s*\)", e):
            self.hit("c-style-scalar-cast-dropped", e0); e = re.sub(r"\(\s*T\s*\)\s*", "", e)
        if re.search(r"\(\s*int\s*\)", e):
            self.hit("c-style-int-cast-dropped", e0); e = re.sub(r"\(\s*int\s*\)\s*", "", e)
        if "&&" in e or "||" in e:
            self.hit("logical-ops->AND/OR", e0); e = self.logic(e)
        e = re.sub(r"!(?!=)", " not ", e)
        e = re.sub(r"\btrue\b", "True", e); e = re.sub(r"\bfalse\b", "False", e)
        if "::" in e:
            self.hit("scope-flatten", e0); e = e.replace("::", "_")
        if "->" in e:
            self.hit("arrow->dot", e0); e = e.replace("->", ".")
        if re.search(r"\*\s*this\b", e):
            self.hit("*this->self", e0); e = re.sub(r"\*\s*this\b", "self", e)
        e = re.sub(r"\bthis\.", "self.", e)
        e = re.sub(r"\bint\s*\(", "int(", e)
        if "?" in e:
            e = self.ternary(e)
        return e

    def logic(self, e):
        """a && b || c  ->  OR(AND(a, b), c)   (pure conditions; AND/OR build z3 terms or python bools)"""
        def split_op(t, op):
            out, depth, cur, i = [], 0, [], 0
            while i < len(t):
                ch = t[i]
                if ch in "([{": depth += 1
                elif ch in ")]}": depth -= 1
                if depth == 0 and t.startswith(op, i):
                    out.append("".join(cur)); cur = []; i += len(op); continue
                cur.append(ch); i += 1
            out.append("".join(cur))
            return [x.strip() for x in out]
        def inner(t):
            # recurse into parenthesised groups first
            out, i = [], 0
            while i < len(t):
                if t[i] == "(":
                    j = match_brace(t, i)
                    g = t[i + 1:j]
                    out.append("(" + (self.logic(g) if ("&&" in g or "||" in g) else g) + ")"); i = j + 1
                else:
                    out.append(t[i]); i += 1
            return "".join(out)
        # a ?: at top level must keep its structure: only rewrite inside its three parts
        ors = split_op(e, "||")
        if len(ors) > 1:
            return "OR(%s)" % ", ".join(self.logic(x) for x in ors)
        ands = split_op(e, "&&")
        if len(ands) > 1:
            return "AND(%s)" % ", ".join(self.logic(x) for x in ands)
        return inner(e)

    def ternary(self, e):
        # a ? b : c  (top level of e, or inside one parenthesis level) -> ITE(a,b,c)
        depth = 0
        for i, ch in enumerate(e):
            if ch in "([{":
                depth += 1
            elif ch in ")]}":
                depth -= 1
            elif ch == "?" and depth == 0:
                # find matching ':' at depth 0
                d2 = 0
                for j in range(i + 1, len(e)):
                    if e[j] in "([{": d2 += 1
                    elif e[j] in ")]}": d2 -= 1
                    elif e[j] == "?" and d2 == 0:
                        break
                    elif e[j] == ":" and d2 == 0:
                        self.hit("ternary->conditional-expression", e)
                        # condition extends left to start or to an '=' / ',' / 'return' boundary at depth 0
                        # lazy, like C++: only the selected arm is evaluated; a symbolic condition
                        # is decided by the branch script (path splitting) through BR()
                        return "((%s) if BR(%s) else (%s))" % (self.ternary(e[i + 1:j].strip()), e[:i].strip(), self.ternary(e[j + 1:].strip()))
                raise ExtractionError("%s: unsupported ?: in '%s'" % (self.name, e))
        # nested inside parentheses: recurse into each parenthesised group
        out, i = [], 0
        while i < len(e):
            if e[i] == "(":
                j = match_brace(e, i)
                inner = e[i + 1:j]
                if "?" in inner:
                    parts = split_top(inner)
                    inner = ", ".join(self.ternary(p) if "?" in p else p for p in parts)
                out.append("(" + inner + ")"); i = j + 1
            else:
                out.append(e[i]); i += 1
        r = "".join(out)
        if "?" in r:
            raise ExtractionError("%s: unsupported ?: in '%s'" % (self.name, e))
        return r

    # ---- statements -----------------------------------------------------
    def stmts(self, text, ind):
        out = []
        text = text.strip()
        while text:
            text = text.lstrip()
            if not text:
                break
            if text.startswith("{"):
                j = match_brace(blank_comments(text), 0)
                out += self.stmts(text[1:j], ind); text = text[j + 1:]; continue
            m = re.match(r"switch\s*\(", text)
            if m:
                op = text.index("("); cp = match_brace(blank_comments(text), op)
                disc = self.expr(text[op + 1:cp])
                rest = text[cp + 1:].lstrip()
                if not rest.startswith("{"):
                    raise ExtractionError("%s: switch without block" % self.name)
                j = match_brace(blank_comments(rest), 0)
                body = rest[1:j]; text = rest[j + 1:]
                # split into case arms at top level
                arms, b, depth, last, i = [], blank_comments(body), 0, None, 0
                marks = []
                for mm in re.finditer(r"\b(case\s+[^:]+|default)\s*:", b):
                    # only depth-0 labels
                    d = b[:mm.start()].count("{") - b[:mm.start()].count("}")
                    if d == 0:
                        marks.append(mm)
                self.hit("switch->if/elif chain", "switch(%s) with %d arms" % (disc, len(marks)))
                out.append(" " * ind + "_sw = %s" % disc)
                first = True
                for k, mm in enumerate(marks):
                    arm = body[mm.end():marks[k + 1].start() if k + 1 < len(marks) else len(body)]
                    label = mm.group(1)
                    arm_lines = self.stmts(arm, ind + 4)
                    arm_lines = [l for l in arm_lines if l.strip() != "break"]
                    falls = not (arm_lines and re.match(r"\s*(return|raise)\b", arm_lines[-1])) and "break" not in arm and k + 1 < len(marks)
                    if falls:
                        raise ExtractionError("%s: switch arm '%s' falls through (not supported)" % (self.name, label))
                    if label == "default":
                        out.append(" " * ind + ("else:" if not first else "if True:"))
                    else:
                        out.append(" " * ind + ("if" if first else "elif") + " _sw == %s:" % self.expr(label[4:].strip()))
                    out += arm_lines or [" " * (ind + 4) + "pass"]
                    first = False
                continue
            m = re.match(r"(if|for|while)\s*\(", text)
            if m:
                kw = m.group(1)
                op = text.index("(", m.start())
                cp = match_brace(blank_comments(text), op)
                head = text[op + 1:cp]
                rest = text[cp + 1:].lstrip()
                body, rest = self.one(rest)
                if kw == "if":
                    out.append(" " * ind + "if BR(%s):" % self.expr(head))
                    out += self.stmts(body, ind + 4) or [" " * (ind + 4) + "pass"]
                    r2 = rest.lstrip()
                    while r2.startswith("else"):
                        r2 = r2[4:].lstrip()
                        if re.match(r"if\s*\(", r2):
                            op = r2.index("("); cp = match_brace(blank_comments(r2), op)
                            h2 = r2[op + 1:cp]
                            b2, r2 = self.one(r2[cp + 1:].lstrip())
                            out.append(" " * ind + "elif BR(%s):" % self.expr(h2))
                            out += self.stmts(b2, ind + 4) or [" " * (ind + 4) + "pass"]
                            r2 = r2.lstrip()
                        else:
                            b2, r2 = self.one(r2)
                            out.append(" " * ind + "else:")
                            out += self.stmts(b2, ind + 4) or [" " * (ind + 4) + "pass"]
                            r2 = r2.lstrip(); break
                    text = r2; continue
                if kw == "for":
                    parts = split_top(head, ";")
                    fm = re.match(r"(?:int|unsigned|size_t|\w+Index)?\s*(\w+)\s*=\s*(.+)$", parts[0]) or re.match(r"(?:\w+Index)\s+(\w+)\s*\((.+)\)$", parts[0])
                    cm = re.match(r"(\w+)\s*(<=|<)\s*(.+)$", parts[1])
                    im = re.match(r"(?:\+\+(\w+)|(\w+)\+\+)$", parts[2].replace(" ", ""))
                    if not (fm and cm and im and fm.group(1) == cm.group(1)):
                        raise ExtractionError("%s: unsupported for-header '%s'" % (self.name, head))
                    hi = self.expr(cm.group(3)) + ("+1" if cm.group(2) == "<=" else "")
                    self.hit("for->range", head)
                    out.append(" " * ind + "for %s in range(%s, %s):" % (fm.group(1), self.expr(fm.group(2)), hi))
                    out += self.stmts(body, ind + 4) or [" " * (ind + 4) + "pass"]
                    text = rest; continue
                raise ExtractionError("%s: unsupported loop '%s'" % (self.name, text[:60]))
            # simple statement up to ';'
            b = blank_comments(text)
            depth = 0; k = None
            for i, ch in enumerate(b):
                if ch in "([{": depth += 1
                elif ch in ")]}": depth -= 1
                elif ch == ";" and depth == 0:
                    k = i; break
            if k is None:
                raise ExtractionError("%s: statement without ';': '%s'" % (self.name, text[:80]))
            st = " ".join(text[:k].split())
            text = text[k + 1:]
            if st:
                out += [" " * ind + s for s in self.simple(st)]
        return out

    def one(self, rest):
        """split off one statement (block or simple) from rest -> (body_text, remaining)"""
        rest = rest.lstrip()
        if rest.startswith("{"):
            j = match_brace(blank_comments(rest), 0)
            return rest[1:j], rest[j + 1:]
        m = re.match(r"(if|for|while)\s*\(", rest)
        if m:
            op = rest.index("("); cp = match_brace(blank_comments(rest), op)
            body, r2 = self.one(rest[cp + 1:])
            used = len(rest) - len(r2)
            # include else parts
            r3 = r2.lstrip()
            while m.group(1) == "if" and r3.startswith("else"):
                b2, r3n = self.one(r3[4:])
                used = len(rest) - len(r3n); r3 = r3n.lstrip()
            return rest[:used], rest[used:]
        b = blank_comments(rest)
        depth = 0
        for i, ch in enumerate(b):
            if ch in "([{": depth += 1
            elif ch in ")]}": depth -= 1
            elif ch == ";" and depth == 0:
                return rest[:i + 1], rest[i + 1:]
        raise ExtractionError("%s: cannot split statement '%s'" % (self.name, rest[:60]))

    def simple(self, st):
        m = re.match(r"^std::swap\s*\((.+)\)$", st)
        if m:
            a, b = split_top(m.group(1))
            self.hit("std::swap->tuple-assign", st)
            return ["%s, %s = %s, %s" % (self.expr(a), self.expr(b), self.expr(b), self.expr(a))]
        m = re.match(r"^(.+?)\s*=\s*-\s*\(\s*([^=()]+?)\s*=\s*([^=()]+)\)$", st)
        if m and "==" not in st:
            self.hit("nested-assignment-split", st)
            return ["%s = %s" % (self.expr(m.group(2)), self.expr(m.group(3))), "%s = -(%s)" % (self.expr(m.group(1)), self.expr(m.group(2)))]
        if st.startswith("return"):
            e = st[6:].strip()
            return ["return " + (self.expr(e) if e else "None")]
        if st in ("continue", "break"):
            return [st]
        m = re.match(r"^SimTK_THROW\d*\s*\((.*)\)$", st)
        if m:
            self.hit("throw->python exception (ghost 'threw')", st)
            return ["raise Thrown(%r)" % m.group(1)]
        m = re.match(r"^(?:\+\+\s*([\w.\[\]]+)|([\w.\[\]]+)\s*\+\+)$", st)
        if m:
            self.hit("increment->+=1", st)
            return ["%s += 1" % self.expr(m.group(1) or m.group(2))]
        if self.keep_asserts and re.match(r"assert\s*\(", st):
            inner = st[st.index("(") + 1:st.rindex(")")]
            self.hit("assert->precondition obligation", st)
            return ["ASSERT(%s, %r)" % (self.expr(inner), inner)]
        if re.match(r"(SimTK_ASSERT|SimTK_ERRCHK|SimTK_APIARGCHECK|SimTK_INDEXCHECK|SimTK_SIZECHECK|SimTK_STAGECHECK|assert)\w*\s*\(", st):
            self.dropped.append(dict(rule="assert/argument-check dropped (its condition is a precondition of the contract)", text=st)); return []
        m = DECL_RX.match(st)
        if not m:
            # generic declaration: a statement that starts with <type> <identifier> (two adjacent names)
            m = GENERIC_DECL_RX.match(st)
        if m:
            ty = m.group(1)
            rest = st[m.end():]
            self.hit("decl-type-stripped", st)
            out = []
            for piece in split_top(rest):
                piece = re.sub(r"^[&*]\s*", "", piece)
                pm = re.match(r"^(\w+)\s*=\s*(.+)$", piece)
                if pm:
                    out.append("%s = %s" % (pm.group(1), self.expr(pm.group(2)))); continue
                pm = re.match(r"^(\w+)\s*\((.*)\)$", piece)
                if pm:
                    self.hit("ctor-style-init", piece)
                    tyname = self.expr(ty + "(0)")[:-3]
                    scalar = re.fullmatch(r"(?:RealP|Real|P|E|double|float|int|bool|unsigned|EPrecision)", ty)
                    out.append("%s = %s" % (pm.group(1), "(%s)" % self.expr(pm.group(2)) if scalar else "%s(%s)" % (tyname, self.expr(pm.group(2))))); continue
                pm = re.match(r"^(\w+)$", piece)
                if pm:
                    tyname = self.expr(ty + "(0)")[:-3]
                    scalar = re.fullmatch(r"(?:RealP|Real|P|E|double|float|int|bool|unsigned|EPrecision)", ty)
                    out.append("%s = %s" % (pm.group(1), "None" if scalar else "%s()" % tyname)); continue
                raise ExtractionError("%s: unsupported declarator '%s'" % (self.name, piece))
            return out
        parts = split_top(st)
        if len(parts) > 1 and all(re.match(r"^[\w.\[\]]+\s*(\+=|-=|\*=|/=|=)(?!=)", p_) for p_ in parts):
            self.hit("comma-operator->statements", st)
            out = []
            for p_ in parts:
                out += self.simple(p_)
            return out
        m = re.match(r"^([\w.\[\]()>-]+?)\s*(\+=|-=|\*=|/=|=)\s*(.+)$", st)
        if m and not st.startswith("("):
            lhs = self.expr(m.group(1))
            if re.search(r"\)$", lhs) and "(" in lhs and "[" not in lhs:
                # element assignment m(i,j) = e  -> SETEL(m,(i,j),e)
                nm, args = lhs[:lhs.index("(")], lhs[lhs.index("(") + 1:-1]
                self.hit("element-assign", st)
                if m.group(2) != "=":
                    return ["SETEL(%s, (%s,), GETEL(%s,(%s,)) %s (%s))" % (nm, args, nm, args, m.group(2)[0], self.expr(m.group(3)))]
                return ["SETEL(%s, (%s,), %s)" % (nm, args, self.expr(m.group(3)))]
            return ["%s %s %s" % (lhs, m.group(2), self.expr(m.group(3)))]
        # bare call / expression statement
        return [self.expr(st)]


def params_of(header):
    header = re.sub(r"operator\s*\(\s*\)", "operator_call", header)      # operator()(...) : the first () is part of the name
    op = header.index("(")
    cp = match_brace(blank_comments(header), op)
    inner = header[op + 1:cp].strip()
    if not inner or inner == "void":
        return []
    names = []
    # commas inside template argument lists do not separate parameters
    flat, depth = [], 0
    for ch in inner:
        if ch == "<": depth += 1
        elif ch == ">": depth -= 1
        flat.append(";" if (ch == "," and depth > 0) else ch)
    for p in split_top("".join(flat)):
        p = re.sub(r"=.*$", "", p).strip()       # default arguments
        m = re.search(r"(\w+)\s*(?:\[\s*\d*\s*\])?$", p)
        if not m:
            raise ExtractionError("cannot parse parameter '%s'" % p)
        names.append(m.group(1))
    return names


def to_python(cut, pyname, self_param=False, pre=None, keep_asserts=False):
    """cut: extract.Cut of a function definition. Returns (python source, log, dropped)."""
    t = Translit(cut.name)
    t.keep_asserts = keep_asserts
    header = strip_comments(cut.header)
    # constructor initialiser lists are not supported
    names = params_of(header)
    body = strip_comments(cut.body)
    if pre:
        body = pre(body)
    lines = t.stmts(body, 4)
    if self_param:
        names = ["self"] + names
    src = "def %s(%s):\n" % (pyname, ", ".join(names)) + ("\n".join(lines) if lines else "    pass") + "\n"
    return src, list(t.log.values()), t.dropped
