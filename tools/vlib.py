"""Common machinery for /verif checks: obligation bookkeeping, CBMC contract
pipeline runner, known-findings handling, evidence writer, exit codes.

Exit codes (DESIGN 3.1): 0 all obligations discharged (known findings listed),
1 violation (VIOLATION line printed), 2 undecided (extraction/solver/tool).
"""
import hashlib, json, os, re, shutil, subprocess, sys, time, threading
from concurrent.futures import ThreadPoolExecutor

VERIF = os.path.dirname(os.path.dirname(os.path.abspath(__file__)))
REPO = os.environ.get("VERIF_REPO", "/repo")
MEM_KB = 12 * 1024 * 1024  # ulimit -v per solver process


class Undecided(Exception):
    pass


def sha256(text):
    return hashlib.sha256(text.encode()).hexdigest()


def run(cmd, timeout, cwd=None, stdin=None):
    """Run under timeout + ulimit -v. Returns (rc, stdout, stderr, seconds)."""
    t0 = time.time()
    if isinstance(cmd, list):
        shell_cmd = " ".join(_q(c) for c in cmd)
    else:
        shell_cmd = cmd
    full = "ulimit -v %d; exec %s" % (MEM_KB, shell_cmd)
    try:
        p = subprocess.run(["bash", "-c", full], cwd=cwd, input=stdin,
                           capture_output=True, text=True, timeout=timeout)
        return p.returncode, p.stdout, p.stderr, time.time() - t0
    except subprocess.TimeoutExpired as e:
        out = e.stdout.decode() if isinstance(e.stdout, bytes) else (e.stdout or "")
        err = e.stderr.decode() if isinstance(e.stderr, bytes) else (e.stderr or "")
        return -9, out, err, time.time() - t0


def _q(s):
    s = str(s)
    if re.match(r"^[A-Za-z0-9_./=:+,@%-]+$", s):
        return s
    return "'" + s.replace("'", "'\\''") + "'"


class Obligation:
    def __init__(self, name, unit, backend, status, solver_s=0.0, detail="",
                 bounded=None, function=None, cex=None):
        self.name = name          # unique within the property
        self.unit = unit
        self.backend = backend
        self.status = status      # discharged | failed | undecided
        self.solver_s = solver_s
        self.detail = detail
        self.bounded = bounded    # None or a string stating the bound
        self.function = function
        self.cex = cex            # dict of counterexample values or None

    def as_dict(self):
        d = dict(name=self.name, unit=self.unit, backend=self.backend,
                 status=self.status, solver_s=round(self.solver_s, 3))
        if self.bounded:
            d["bounded"] = self.bounded
        if self.detail:
            d["detail"] = self.detail[:400]
        return d


class Ctx:
    def __init__(self, pid, tier, seed):
        self.pid, self.tier, self.seed = pid, tier, seed
        # runs against another tree (VERIF_REPO: seeded changes in scratch worktrees) keep their output apart from the
        # output and evidence of /repo itself
        # ... and so do partial runs (VERIF_ONLY) and ad-hoc contexts whose id is not a property id
        self.alt = os.path.realpath(REPO) != "/repo" or bool(os.environ.get("VERIF_ONLY")) or not re.match(r"^C\d\d$", pid)
        self.out = os.path.join(VERIF, "out", "_alt", pid) if self.alt else os.path.join(VERIF, "out", pid)
        shutil.rmtree(self.out, ignore_errors=True)
        os.makedirs(self.out, exist_ok=True)
        self.t0 = time.time()
        self.obligations = []
        self.functions = []       # functions under contract
        self.assumptions = []
        self.not_decided = []
        self.trusted = []
        self.extraction = []      # extraction report entries
        self.units = []           # per-unit summary
        self.undecided = []       # reasons
        self.violations = []      # (obligation, replay_path, reproduced)
        self.known_lines = []
        self.extra = {}
        self.lock = threading.Lock()
        self.level = "proof"
        self.explanation = ""
        self.checker_cmds = []
        kf = os.path.join(VERIF, "known_findings.json")
        self.known = json.load(open(kf))["findings"] if os.path.exists(kf) else []

    # ---- bookkeeping -------------------------------------------------
    def add_function(self, path, name, start, end, text, route, dropped=None, rewrites=None):
        with self.lock:
            self.functions.append(dict(function=name, file=os.path.relpath(path, REPO) if path.startswith(REPO) else path,
                                       lines="%d-%d" % (start, end), sha256=sha256(text)[:16], route=route))
            self.extraction.append(dict(function=name, file=path, lines=[start, end], sha256=sha256(text),
                                        route=route, rewrites=rewrites or [], dropped=dropped or []))

    def assume(self, text):
        if text not in self.assumptions:
            self.assumptions.append(text)

    def trust(self, text):
        if text not in self.trusted:
            self.trusted.append(text)

    def undecide(self, reason):
        with self.lock:
            self.undecided.append(reason)

    def add(self, ob):
        with self.lock:
            self.obligations.append(ob)

    # ---- known findings ---------------------------------------------
    def match_known(self, ob):
        for k in self.known:
            if k.get("property") != self.pid or k.get("status") != "open":
                continue
            if re.fullmatch(k["obligation"], ob.name):
                return k
        return None

    # ---- finish ------------------------------------------------------
    def finish(self, replayer=None):
        """replayer(ob) -> (replay_dict, reproduced_bool_or_None)"""
        failed = [o for o in self.obligations if o.status == "failed"]
        und = [o for o in self.obligations if o.status == "undecided"]
        lines = []
        nviol = 0
        seen_known = set()
        replay_cache = {}
        shown = 0
        MAXSHOW = 8
        for ob in failed:
            k = self.match_known(ob)
            rep, reproduced = ({}, None)
            if replayer is not None:
                ck = (ob.unit, ob.function)
                if ck in replay_cache and len(replay_cache) >= 3:
                    rep, reproduced = replay_cache[ck]       # same unit/function: reuse the native run
                    rep = dict(rep, note="replay shared with an earlier failed obligation of the same unit/function")
                else:
                    try:
                        rep, reproduced = replayer(ob)
                    except Exception as e:  # replay trouble must not hide the failure
                        rep, reproduced = ({"replay_error": repr(e)}, None)
                    replay_cache[ck] = (rep, reproduced)
            if k is not None:
                # a known finding only covers witnesses in its recorded class
                wc = k.get("witness_class")
                inside = True
                if wc and replayer is not None and rep.get("witness_class") is not None:
                    inside = (rep.get("witness_class") == wc)
                if inside:
                    if k["id"] not in seen_known:
                        seen_known.add(k["id"])
                        lines.append("KNOWN-FINDING: property=%s %s [%s]" % (self.pid, k["what"], k["id"]))
                    ob.status = "known-finding"      # reported separately; not part of the claimed obligations
                    ob.detail = "[%s] %s" % (k["id"], ob.detail)
                    continue
            nviol += 1
            path = os.path.join(self.out, "replay_%s_%s.json" % (re.sub(r"[^A-Za-z0-9_.-]", "_", ob.name)[:110], sha256(ob.name)[:6]))
            rec = dict(property=self.pid, obligation=ob.name, unit=ob.unit, backend=ob.backend,
                       function=ob.function, verifier_output=ob.detail, counterexample=ob.cex,
                       replay=rep, reproduced_on_real_code=reproduced)
            json.dump(rec, open(path, "w"), indent=1, default=str)
            tail = "" if reproduced else " no-failing-input-found"
            shown += 1
            if shown <= MAXSHOW:
                lines.append("VIOLATION property=%s replay=%s%s" % (self.pid, path, tail))
                lines.append("  failed-obligation: %s (%s)" % (ob.name, ob.detail[:200].replace("\n", " ")))
        if shown > MAXSHOW:
            lines.append("  ... and %d more failed obligations (replay files in %s, list in the evidence file)" % (shown - MAXSHOW, self.out))
        # open known findings that did NOT reproduce: say so (not an alarm)
        for k in self.known:
            if k.get("property") == self.pid and k.get("status") == "open" and k["id"] not in seen_known:
                lines.append("NOTE: known finding %s did not reproduce on this tree (obligation %s now passes or was not generated)" % (k["id"], k["obligation"]))
        self.known_lines = lines
        self.nviol = nviol
        rc = 0
        if nviol:
            rc = 1
        elif und or self.undecided:
            rc = 2
        self.write_evidence(rc, seen_known)
        for l in lines:
            print(l)
        for o in und:
            print("UNDECIDED property=%s obligation=%s reason=%s" % (self.pid, o.name, o.detail[:200].replace("\n", " ")))
        for r in self.undecided:
            print("UNDECIDED property=%s reason=%s" % (self.pid, r[:300].replace("\n", " ")))
        n = len(self.obligations)
        nd = len([o for o in self.obligations if o.status == "discharged"])
        nb = len([o for o in self.obligations if o.bounded])
        nk = len([o for o in self.obligations if o.status == "known-finding"])
        print("%s: %d obligations, %d discharged (%d of them bounded stand-ins), %d failed, %d undecided%s, %d functions under contract, %.1fs"
              % (self.pid, n - nk, nd, len([o for o in self.obligations if o.bounded and o.status == 'discharged']),
                 nviol, len(und) + len(self.undecided), (" (+%d obligations of listed known findings, reported above)" % nk) if nk else "",
                 len(self.functions), time.time() - self.t0))
        return rc

    def write_evidence(self, rc, seen_known):
        known_obs = [o for o in self.obligations if o.status == "known-finding"]
        obs = [o for o in self.obligations if o.status != "known-finding"]
        unb = [o for o in obs if not o.bounded]
        bnd = [o for o in obs if o.bounded]
        by_backend = {}
        for o in obs:
            b = by_backend.setdefault(o.backend, dict(obligations=0, discharged=0, solver_s=0.0))
            b["obligations"] += 1
            b["discharged"] += o.status == "discharged"
            b["solver_s"] = round(b["solver_s"] + o.solver_s, 3)
        # sample: postcondition-like obligations first
        interesting = [o for o in obs if re.search(r"postcondition|ensures|lemma|identity|assertion|invariant", o.name + o.detail)]
        samples = [o.as_dict() for o in (interesting[:6] + obs[:2])][:8]
        cov = dict(
            obligations=len(unb), discharged=len([o for o in unb if o.status == "discharged"]),
            bounded_obligations=len(bnd),
            bounded_discharged=len([o for o in bnd if o.status == "discharged"]),
            bounded=sorted(set("%s: %s" % (o.unit, o.bounded) for o in bnd)),
            failed=[o.as_dict() for o in obs if o.status == "failed"][:20],
            undecided=[o.as_dict() for o in obs if o.status == "undecided"][:20] + [dict(reason=r) for r in self.undecided],
            checker_cmd="; ".join(self.checker_cmds[:3]) or "see units",
            trusted_base=self.trusted,
            functions_under_contract=self.functions,
            units=self.units,
            per_backend=by_backend,
            solver_s=round(sum(o.solver_s for o in obs), 2),
            clauses_not_decided=self.not_decided,
            known_findings_reported=sorted(seen_known),
            known_finding_obligations=[o.as_dict() for o in known_obs],
            samples=samples,
            explanation=self.explanation,
            exit_code=rc,
        )
        cov.update(self.extra)
        ev = dict(property_id=self.pid, tier=self.tier, seed=self.seed, level=self.level,
                  coverage=cov, assumptions=self.assumptions, wall_s=round(time.time() - self.t0, 2),
                  violations=self.nviol)
        evdir = os.path.join(VERIF, "out", "_alt", "evidence") if self.alt else os.path.join(VERIF, "evidence")
        os.makedirs(evdir, exist_ok=True)
        json.dump(ev, open(os.path.join(evdir, self.pid + ".json"), "w"), indent=1)
        json.dump(self.extraction, open(os.path.join(self.out, "extraction_report.json"), "w"), indent=1)


# ----------------------------------------------------------------------
# CBMC pipeline
# ----------------------------------------------------------------------
STUBS = os.path.join(VERIF, "stubs")


def cbmc_unit(ctx, unit, sources, entry, enforce=None, replace=(), loop_contracts=False,
              cbmc_args=(), cc_args=(), timeout=300, bounded=None, solver=None,
              min_obligations=1, function=None, require_props=(), cex_vars=(), no_dfcc=False,
              expect_cover=()):
    """Compile sources (list of paths; .cpp compiled with -nostdinc + stubs),
    instrument contracts, run cbmc, record one Obligation per CBMC property.

    solver: None (SAT/minisat), 'z3', 'cvc5', 'kissat' ...
    require_props: regexes that must each match >=1 generated property name
                   (vacuity guard: e.g. 'postcondition', 'loop_invariant_step').
    cex_vars: names of harness variables whose values are pulled from traces.
    """
    try:
        _env = os.environ.get("VERIF_TIMEOUT_SCALE")
        _sc = max(1.0, float(_env)) if _env else max(1.0, min(5.0, 1.5 * os.getloadavg()[0] / (os.cpu_count() or 4)))
    except Exception:
        _sc = 1.0
    timeout = int(timeout * _sc)      # wall-clock budget stretched on an oversubscribed machine (never affects soundness)
    only = os.environ.get("VERIF_ONLY")      # debugging aid only: run a subset of units
    if only and not re.search(only, unit):
        return []
    d = os.path.join(ctx.out, unit)
    os.makedirs(d, exist_ok=True)
    gbs = []
    log = []
    for s in sources:
        gb = os.path.join(d, os.path.basename(s) + ".gb")
        cmd = ["goto-cc", "-c", s, "-o", gb, "-DVERIF_CBMC"] + list(cc_args)
        if s.endswith(".cpp"):
            cmd += ["-nostdinc", "-I" + STUBS]
        rc, o, e, t = run(cmd, 120)
        log.append("$ " + " ".join(cmd) + "\n" + o + e)
        if rc != 0:
            open(os.path.join(d, "log.txt"), "w").write("\n".join(log))
            ctx.add(Obligation(unit + ".compile", unit, "goto-cc", "undecided", t,
                               "goto-cc failed on %s: %s" % (s, (o + e)[-600:]), function=function))
            return []
        gbs.append(gb)
    linked = os.path.join(d, "linked.gb")
    cmd = ["goto-cc", "--function", entry] + gbs + ["-o", linked]
    rc, o, e, t = run(cmd, 120)
    log.append("$ " + " ".join(cmd) + "\n" + o + e)
    if rc != 0:
        open(os.path.join(d, "log.txt"), "w").write("\n".join(log))
        ctx.add(Obligation(unit + ".link", unit, "goto-cc", "undecided", t, (o + e)[-600:], function=function))
        return []
    inst = linked
    if not no_dfcc:
        inst = os.path.join(d, "inst.gb")
        cmd = ["goto-instrument", "--dfcc", entry]
        if enforce:
            cmd += ["--enforce-contract", enforce]
        if replace:
            # a callee that the current body does not call is absent from the binary;
            # goto-instrument aborts on unknown names, so only pass the ones present
            rc, o, e, t = run(["goto-instrument", "--show-symbol-table", linked], 120)
            present = set(re.findall(r"^Symbol\.*: (\S+)$", o, re.M))
            replace = [r for r in replace if r in present]
        for r in replace:
            cmd += ["--replace-call-with-contract", r]
        if loop_contracts:
            cmd += ["--apply-loop-contracts"]
        cmd += [linked, inst]
        rc, o, e, t = run(cmd, 300)
        log.append("$ " + " ".join(cmd) + "\n" + o[-3000:] + e[-3000:])
        if rc != 0:
            open(os.path.join(d, "log.txt"), "w").write("\n".join(log))
            ctx.add(Obligation(unit + ".instrument", unit, "goto-instrument", "undecided", t,
                               (o + e)[-600:], function=function))
            return []
    cmd = ["cbmc", inst, "--json-ui", "--trace"] + list(cbmc_args)
    if no_dfcc:
        cmd += ["--function", entry, "--drop-unused-functions"]
    backend = "cbmc+minisat"
    if solver in ("z3", "cvc5"):
        cmd += ["--" + solver]
        backend = "cbmc+" + solver
    elif solver:
        cmd += ["--external-sat-solver", solver]
        backend = "cbmc+" + solver
    rc, o, e, t = run(cmd, timeout)
    log.append("$ " + " ".join(cmd) + "\n[rc=%s, %.1fs]\n" % (rc, t) + e[-2000:])
    open(os.path.join(d, "log.txt"), "w").write("\n".join(log))
    open(os.path.join(d, "cbmc.json"), "w").write(o)
    with ctx.lock:
        if len(ctx.checker_cmds) < 3:
            ctx.checker_cmds.append(" ".join(cmd).replace(ctx.out, "out/" + ctx.pid))
    if rc == -9:
        ctx.add(Obligation(unit + ".solver", unit, backend, "undecided", t, "timeout after %ds" % timeout, function=function))
        return []
    try:
        msgs = json.loads(o)
    except Exception:
        ctx.add(Obligation(unit + ".solver", unit, backend, "undecided", t,
                           "cbmc output not JSON (rc=%s): %s" % (rc, (o + e)[-400:]), function=function))
        return []
    results = None
    texts = []
    for m in msgs:
        if isinstance(m, dict):
            if "result" in m:
                results = m["result"]
            if m.get("messageText"):
                texts.append(m["messageText"])
    alltext = "\n".join(texts)
    bad = [l for l in texts if re.search(r"ignoring (forall|exists)|Parse Error|no body for (callee|function)", l)]
    if results is None:
        ctx.add(Obligation(unit + ".solver", unit, backend, "undecided", t,
                           "no result from cbmc (rc=%s): %s" % (rc, alltext[-500:]), function=function))
        return []
    obs = []
    nprops = len(results)
    per = t / max(1, nprops)
    names = [r.get("property", "?") for r in results]
    for r in results:
        name = r.get("property", "?")
        st = r.get("status", "?")
        desc = r.get("description", "")
        status = {"SUCCESS": "discharged", "FAILURE": "failed"}.get(st, "undecided")
        cex = None
        if status == "failed":
            cex = extract_cex(r.get("trace", []), cex_vars)
        ob = Obligation(unit + ":" + name, unit, backend, status, per,
                        desc if status == "discharged" else "%s: %s" % (st, desc),
                        bounded=bounded, function=function, cex=cex)
        obs.append(ob)
    # vacuity / strength guards
    guard_fail = []
    if nprops < min_obligations:
        guard_fail.append("only %d obligations generated, expected >= %d" % (nprops, min_obligations))
    for rx in require_props:
        if not any(re.search(rx, n) for n in names):
            guard_fail.append("no generated obligation matches /%s/ (contract silently dropped?)" % rx)
    if bad:
        guard_fail.append("verifier log: " + "; ".join(sorted(set(bad)))[:300])
    for ob in obs:
        ctx.add(ob)
    for g in guard_fail:
        ctx.add(Obligation(unit + ".guard", unit, backend, "undecided", 0, g, function=function))
    with ctx.lock:
        ctx.units.append(dict(unit=unit, backend=backend, entry=entry, enforce=enforce, replace=list(replace),
                              loop_contracts=loop_contracts, obligations=nprops,
                              discharged=len([x for x in obs if x.status == "discharged"]),
                              solver_s=round(t, 2), bounded=bounded))
    return obs


def extract_cex(trace, cex_vars):
    """Last assignment of each named variable in a CBMC json trace."""
    vals = {}
    for step in trace:
        if step.get("stepType") != "assignment":
            continue
        lhs = step.get("lhs", "")
        if not lhs or lhs.startswith("__") or "write_set" in lhs or "contract" in lhs or step.get("hidden"):
            continue
        base = re.sub(r"[\[.].*$", "", lhs)
        if cex_vars and base not in cex_vars and lhs not in cex_vars:
            continue
        v = step.get("value", {})
        rec = {}
        if "binary" in v:
            rec["binary"] = v["binary"]
        if "data" in v:
            rec["data"] = v["data"]
        if not rec and "elements" in v:
            rec = {"elements": [el.get("value", {}).get("data") for el in v["elements"]][:64]}
        if not rec and "members" in v:
            rec = {"members": {mm.get("name"): mm.get("value", {}).get("data") for mm in v["members"]}}
        if rec:
            vals[lhs] = rec
    if len(vals) > 80:
        vals = dict(list(vals.items())[-80:])
    return vals


def cover_unit(ctx, unit, sources, entry, cc_args=(), cbmc_args=(), timeout=120, expect_min=1, function=None):
    """Reachability guard: run cbmc --cover cover on a harness containing
    __CPROVER_cover() points behind the preconditions; all must be SATISFIED."""
    d = os.path.join(ctx.out, unit)
    os.makedirs(d, exist_ok=True)
    gbs = []
    for s in sources:
        gb = os.path.join(d, os.path.basename(s) + ".gb")
        cmd = ["goto-cc", "-c", s, "-o", gb, "-DVERIF_CBMC"] + list(cc_args)
        if s.endswith(".cpp"):
            cmd += ["-nostdinc", "-I" + STUBS]
        rc, o, e, t = run(cmd, 120)
        if rc != 0:
            ctx.add(Obligation(unit + ".compile", unit, "goto-cc", "undecided", t, (o + e)[-400:], function=function))
            return
        gbs.append(gb)
    linked = os.path.join(d, "linked.gb")
    rc, o, e, t = run(["goto-cc", "--function", entry] + gbs + ["-o", linked], 120)
    if rc != 0:
        ctx.add(Obligation(unit + ".link", unit, "goto-cc", "undecided", t, (o + e)[-400:], function=function))
        return
    rc, o, e, t = run(["cbmc", linked, "--cover", "cover", "--json-ui"] + list(cbmc_args), timeout)
    try:
        msgs = json.loads(o)
    except Exception:
        ctx.add(Obligation(unit + ".cover", unit, "cbmc+minisat", "undecided", t, "cover run failed: " + (o + e)[-300:], function=function))
        return
    goals = None
    for m in msgs:
        if isinstance(m, dict) and "goals" in m:
            goals = m["goals"]
    if goals is None or len(goals) < expect_min:
        ctx.add(Obligation(unit + ".cover", unit, "cbmc+minisat", "undecided", t,
                           "cover goals: %s, expected >= %d" % (None if goals is None else len(goals), expect_min), function=function))
        return
    for g in goals:
        ok = g.get("status") == "satisfied"
        ctx.add(Obligation(unit + ":cover:" + g.get("goal", "?"), unit, "cbmc+minisat",
                           "discharged" if ok else "undecided", t / len(goals),
                           "reachability cover behind precondition: " + g.get("description", "") + (" SATISFIED" if ok else " NOT satisfied (vacuous precondition?)"),
                           function=function))
    with ctx.lock:
        ctx.units.append(dict(unit=unit, backend="cbmc+minisat --cover", entry=entry, obligations=len(goals),
                              discharged=len([g for g in goals if g.get("status") == "satisfied"]), solver_s=round(t, 2)))


def parallel(jobs, workers=None):
    """jobs: list of zero-arg callables."""
    workers = workers or min(14, (os.cpu_count() or 4))
    with ThreadPoolExecutor(max_workers=workers) as ex:
        futs = [ex.submit(j) for j in jobs]
        for f in futs:
            f.result()


# ----------------------------------------------------------------------
# native replay helpers
# ----------------------------------------------------------------------
INCLUDES = None


def repo_includes():
    global INCLUDES
    if INCLUDES is None:
        incs = []
        for root in ("SimTKcommon", "SimTKmath", "Simbody"):
            for dp, dn, fn in os.walk(os.path.join(REPO, root)):
                if os.path.basename(dp) == "include" and "tests" not in dp:
                    incs.append(dp)
        INCLUDES = sorted(incs)
    return INCLUDES


def native_build(ctx, name, src, extra_srcs=(), libs=False, defines=(), timeout=600, extra_inc=()):
    """g++ a replay driver against the current tree. libs=True links the private
    library build in /verif/.build (refreshed by ensure_libs)."""
    exe = os.path.join(ctx.out, name)
    cmd = ["g++", "-std=c++17", "-O1", "-w", "-o", exe, src] + list(extra_srcs)
    cmd += ["-I" + i for i in repo_includes()] + ["-I" + i for i in extra_inc]
    cmd += ["-D" + x for x in defines]
    if libs:
        b = ensure_libs(ctx)
        cmd += ["-L" + b, "-Wl,-rpath," + b, "-lSimTKsimbody", "-lSimTKmath", "-lSimTKcommon", "-lpthread", "-ldl"]
    rc, o, e, t = run(cmd, timeout)
    if rc != 0:
        raise Undecided("native build of %s failed: %s" % (name, (o + e)[-800:]))
    return exe


_libs_lock = threading.Lock()


def ensure_libs(ctx=None):
    """Private incremental build of the three libraries from the working tree."""
    b = os.path.join(VERIF, ".build")
    with _libs_lock:
        if not os.path.exists(os.path.join(b, "build.ninja")):
            os.makedirs(b, exist_ok=True)
            rc, o, e, t = run(["cmake", "-G", "Ninja", "-S", REPO, "-B", b, "-DCMAKE_BUILD_TYPE=Release",
                               "-DBUILD_TESTING=OFF", "-DBUILD_EXAMPLES=OFF", "-DBUILD_VISUALIZER=OFF",
                               "-DBUILD_TESTS_AND_EXAMPLES_STATIC=OFF", "-DBUILD_TESTS_AND_EXAMPLES_SHARED=OFF",
                               "-DSIMBODY_BUILD_SHARED_LIBS=ON", "-DINSTALL_DOCS=OFF", "-DCMAKE_CXX_FLAGS=-w -DSIMBODY_VERIF"], 600)
            if rc != 0:
                raise Undecided("cmake configure of private build failed: " + (o + e)[-500:])
        rc, o, e, t = run(["ninja", "-C", b, "SimTKcommon", "SimTKmath", "SimTKsimbody"], 3600)
        if rc != 0:
            raise Undecided("private library build failed: " + (o + e)[-800:])
    return b
