#!/bin/bash
# Runs every claimed check (claimed.json) on /repo's current tree, 3 at a time; prints one line each.
cd /verif
TIER=${1:-quick}
ids=$(python3 -c "import json;print(' '.join(json.load(open('/verif/claimed.json'))))")
mkdir -p out
run_one() { id=$1; s=$(date +%s); ./check $id --tier $TIER > out/runall_$id.log 2>&1; rc=$?; e=$(date +%s); echo "$id rc=$rc $((e-s))s $(tail -1 out/runall_$id.log | cut -c1-150)"; }
export -f run_one; export TIER
echo $ids | tr ' ' '\n' | xargs -P 3 -I{} bash -c 'run_one {}'
