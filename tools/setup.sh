#!/bin/sh
# Offline setup: nothing to download. Builds the private copy of the three simbody
# libraries used by native replay drivers (incremental; checks refresh it with ninja).
set -e
mkdir -p /verif/out /verif/evidence
sh /verif/tools/build_libs.sh || { echo "library build failed (replay drivers that link the libraries will be UNDECIDED)"; tail -20 /verif/.build/build.log; exit 1; }
echo setup ok
