import sys, os, argparse, importlib, json, traceback
sys.path.insert(0, os.path.dirname(os.path.abspath(__file__)))
sys.path.insert(0, os.path.join(os.path.dirname(os.path.dirname(os.path.abspath(__file__))), "checks"))
from vlib import Ctx, Undecided
from extract import ExtractionError


def main():
    ap = argparse.ArgumentParser()
    ap.add_argument("pid")
    ap.add_argument("--tier", default=os.environ.get("VERIF_TIER", "quick"))
    ap.add_argument("--replay")
    a = ap.parse_args()
    if a.replay:
        rec = json.load(open(a.replay))
        print(json.dumps(rec, indent=1)[:4000])
        sys.exit(0)
    seed = int(os.environ.get("VERIF_SEED", "0") or 0)
    tier = a.tier if a.tier in ("quick", "thorough") else "quick"
    mod = importlib.import_module(a.pid.lower())
    ctx = Ctx(a.pid, tier, seed)
    try:
        rc = mod.main(ctx)
    except (Undecided, ExtractionError) as e:
        ctx.undecide(str(e))
        rc = ctx.finish()
    except Exception:
        ctx.undecide("internal error: " + traceback.format_exc()[-1500:])
        rc = ctx.finish()
    sys.exit(rc)


main()
