#pragma once
/* verif stub: <inttypes.h> */
typedef unsigned char uint8_t;
typedef unsigned short uint16_t;
typedef unsigned int uint32_t;
typedef unsigned long uint64_t;
typedef signed char int8_t;
typedef short int16_t;
typedef int int32_t;
typedef long int64_t;
