#pragma once
/* verif stub: only the export macro of SimTKcommon/internal/common.h */
#define SimTK_SimTKCOMMON_EXPORT
